#!/venv/bin/python
import json, sys, glob
for f in sorted(glob.glob(sys.argv[1] if len(sys.argv) > 1 else 'replays/*.json')):
    s = json.load(open(f)); v = s.get('violation', {})
    print('==', f, v.get('oracle'), v.get('mismatch'))
    print('  recipe:', json.dumps(s['recipes'])[:700])
    for op in s['ops']:
        print('  op:', json.dumps(op)[:400])
    print('  detail:', v.get('detail', '')[:1500])
