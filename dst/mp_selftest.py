"""
Process-stub fidelity: the same batches through pints.ParallelEvaluator on the
*real* multiprocessing (fork works with the pure-Python solver stand-in) and on
the simulated machine.  This observes real executions and so decides nothing;
it only guards the emulation (dst/mp_stub.py).
"""
import json
import os
import random
import subprocess
import sys

ROOT = os.path.dirname(os.path.dirname(os.path.abspath(__file__)))

CHILD = r'''
import json, sys, random, warnings
warnings.filterwarnings('ignore')
import numpy as np
from dst import kernel, world as W
from dst.props import c19
kernel.install_seams()
import pints
mode = sys.argv[1]
out = []
for i in json.loads(sys.argv[2]):
    from dst.world import derive_seed
    seed = derive_seed(0, 'C19', i)
    sc = c19.generate(random.Random(seed), i, 'quick')
    cands = [r['h'] for r in sc['recipes']
             if r['kind'] in ('logpost', 'hierpost', 'filterpost', 'ctrl_post')]
    if not cands:
        continue
    h = cands[0]
    w = W.World(seed); W.install(w)
    t = c19.Table(sc['recipes'])
    obj = t.get(h)
    xs = [list(v) for v in sc['points'][h]] * 2
    if mode == 'real':
        ev = pints.ParallelEvaluator(obj, n_workers=3, max_tasks_per_worker=2)
        r = ev.evaluate(xs)
    else:
        from dst import mp_stub
        def fn():
            ev = pints.ParallelEvaluator(obj, n_workers=3,
                                         max_tasks_per_worker=2)
            try:
                return ev.evaluate(xs)
            finally:
                ev._stop()
        r, k = mp_stub.run(w, seed & 0xFFFF, fn)
    out.append([i, h, [float(v).hex() for v in r]])
print('RESULT ' + json.dumps(out))
'''


def _run(mode, idx):
    env = dict(os.environ)
    p = subprocess.run([sys.executable, '-c', CHILD, mode, json.dumps(idx)],
                       cwd=ROOT, env=env, capture_output=True, text=True,
                       timeout=1800)
    for line in p.stdout.splitlines():
        if line.startswith('RESULT '):
            return json.loads(line[7:])
    raise RuntimeError(p.stdout[-1500:] + p.stderr[-3000:])


def main(argv):
    n = int(argv[0]) if argv else 40
    idx = list(range(n))
    real = _run('real', idx)
    sim = _run('sim', idx)
    bad = 0
    for a, b in zip(real, sim):
        if a != b:
            bad += 1
            print('MISMATCH index %s %s: real %s simulated %s' % (
                a[0], a[1], a[2], b[2]))
    print('process-stub fidelity: %d posteriors, %d batches compared, '
          '%d mismatches' % (len(real), len(real), bad))
    return 2 if bad or not real else 0
