"""
C03 (scoped) -- analytic gradients along histories.

Decided by simulation: (1) the score returned with the sensitivities equals the
plain score at every point of every history (the sensitivity solver is a
different object, rebuilt from mutable name tables at every switch);
(3) evaluation with sensitivities succeeds and is finite wherever plain
evaluation is, and non-finite wherever plain evaluation is, including under
solver failures injected at the same logical evaluation of both paths; the
gradient has length n_parameters().  Clause (2) (k-th sensitivity = k-th
partial derivative) is only input-sampled at the visited points by
Richardson-extrapolated central differences of plain evaluation.
"""
import copy

import numpy as np

from .. import zoo
from ..kernel import Held, Violation, call, close, is_exc, short
from .c19 import Table, _no_tg

PROP = 'C03'
MUTATORS = {'fix', 'set_regimen', 'check'}
OBSERVERS = {'check'}
BUDGET = {'quick': {'runs': 2000, 'wall': 75},
          'thorough': {'runs': 60000, 'wall': 1500}}
RULE = ('seeded generation of mechanistic-model configuration histories '
        '(routes, regimens, renames, output changes, sensitivity switches, '
        'copies) under a log-pdf, then histories of value / '
        'value-with-sensitivities checks, fix / release, regimen changes '
        'through get_submodels, and solver failures injected into both '
        'paths; distinct = distinct SHA-256 of (object kinds, configuration '
        'history, operation sequence); non-trivial = a check preceded by a '
        'state-changing operation')


def lti(obj_table):
    m = obj_table.get('m')
    inner = m
    sim = getattr(inner, '_simulator', None)
    c = getattr(sim, '_c', None)
    return bool(c is not None and c.lti)


def target_of(table, h):
    return table.get(h)


def fd_gradient(f, x, coords):
    """Richardson-extrapolated central differences on chosen coordinates."""
    x = np.array(x, dtype=float)
    out = {}
    for k in coords:
        h = 1e-3 * (1 + abs(x[k]))
        d = []
        for hh in (h, h / 2, h / 4):
            xp, xm = x.copy(), x.copy()
            xp[k] += hh
            xm[k] -= hh
            fp, fm = call(f, xp), call(f, xm)
            if is_exc(fp) or is_exc(fm) or not (
                    np.isfinite(fp) and np.isfinite(fm)):
                d = None
                break
            d.append((fp - fm) / (2 * hh))
        if d is None:
            continue
        # value and an estimate of its own error (difference of the two
        # step sizes): badly scaled functions give a wide margin, never an
        # alarm
        r1 = (4 * d[1] - d[0]) / 3
        r2 = (4 * d[2] - d[1]) / 3
        if abs(r1 - r2) > 1e-4 * abs(r2) + 1e-9:
            # the two extrapolations disagree: the function is too badly
            # scaled around this point for differencing to say anything
            out[k] = None
            continue
        out[k] = (r2, abs(r1 - r2) + abs(d[2] - d[1]) * 1e-2)
    return out


def run(scenario, world):
    recipes = scenario['recipes']
    t = Table(recipes)
    for r in recipes:
        if not r.get('late'):
            t.get(r['h'])
    exact = lti(t)
    # two different solver objects feed a log-likelihood that can amplify
    # their 1e-13 disagreement by many orders; a wrong protocol / parameter /
    # name table gives O(1) differences
    tol_score = dict(rtol=1e-8, atol=1e-10) if exact else dict(
        rtol=1e-3, atol=1e-6)
    tol_fd = 1e-5 if exact else 5e-2
    points = scenario['points']
    held = Held()
    fixed = {}        # handle -> {index: value} over the original list
    orig_n = {}
    triples = []
    prev = 'init'
    n_fd = 0
    for step, op in enumerate(scenario['ops']):
        o = op['op']
        world.log('op', step, o, op.get('on'))
        h = op.get('on')
        if h not in t.recipes:
            continue
        obj = t.get(h)
        kind = t.recipes[h]['kind']
        if o == 'fix':
            if kind != 'loglik' or t.recipes[h].get('shared'):
                continue
            names0 = orig_n.setdefault(
                h, list(_unfixed_names(t, h, fixed.get(h, {}))))
            d = {}
            fx = fixed.setdefault(h, {})
            for i, v in op['set']:
                i = i % len(names0)
                d[names0[i]] = v
                if v is None:
                    fx.pop(i, None)
                else:
                    fx[i] = v
            r = call(obj.fix_parameters, d)
            if is_exc(r):
                raise Violation('op.fix', 'raises', '%r\n%s' % (r, r.tb),
                                step)
        elif o == 'set_regimen':
            if kind != 'loglik':
                continue
            sub = obj.get_submodels()['Mechanistic model']
            if not hasattr(sub, 'set_dosing_regimen'):
                continue
            r = call(sub.set_dosing_regimen, op['dose'], start=op['start'],
                     duration=op['duration'], period=op.get('period'))
            if is_exc(r):
                world.probe('regimen_rejected')   # no route: documented
                continue
            world.probe('regimen_changed_under_likelihood')
        elif o == 'check':
            vec = list(points[h][op['point'] % len(points[h])])
            for i_ in op.get('negate', []):
                # a proposal outside the error model's support (sigma < 0):
                # the score is -inf there, which is a legal evaluation
                if i_ < len(vec):
                    vec[i_] = -abs(vec[i_])
            fx = fixed.get(h, {})
            x = np.array([v for i, v in enumerate(vec) if i not in fx])
            n = call(lambda: int(obj.n_parameters()))
            if is_exc(n) or n != len(x):
                raise Violation(
                    'gradient.length', 'n_parameters',
                    '%s: n_parameters %s, free values %d' % (
                        kind, short(n), len(x)), step)
            order = op.get('order', 'plain_first')
            fault = op.get('fault')

            mins = []

            def plain():
                world.begin_op(fault)
                try:
                    return call(obj, x)
                finally:
                    mins.extend(r.get('min_abs') for r in world.solver_runs)
                    world.end_op()

            def sens():
                world.begin_op(fault)
                try:
                    return call(obj.evaluateS1, x)
                finally:
                    mins.extend(r.get('min_abs') for r in world.solver_runs)
                    world.end_op()
            if order == 'plain_first':
                p, s = plain(), sens()
            else:
                s, p = sens(), plain()
            # gradients handed out earlier still hold what they held
            held.verify(step)
            if not is_exc(s):
                held.keep('%s.evaluateS1 (step %d)' % (kind, step), s)
            if fault is not None:
                world.probe('check_under_solver_fault')
            if is_exc(p) and p.type == 'NotImplementedError':
                world.probe('not_implemented_skipped')
                continue
            if is_exc(s) and s.type == 'NotImplementedError' and (
                    is_exc(p) or True):
                world.probe('not_implemented_skipped')
                continue
            if is_exc(p):
                # plain evaluation itself fails: nothing promised
                if not is_exc(s):
                    world.probe('plain_raises_s1_not')
                continue
            if is_exc(s):
                raise Violation(
                    'gradient.succeeds', 'raises',
                    '%s at %s: plain evaluation gives %s but evaluateS1 '
                    'raises %r\n%s' % (kind, list(x), short(p), s, s.tb), step)
            sc, g = s
            g = np.atleast_1d(np.asarray(g, dtype=float))
            if g.shape != (len(x),):
                raise Violation(
                    'gradient.length', 'differs',
                    '%s: gradient shape %s, n_parameters %d' % (
                        kind, g.shape, len(x)), step)
            floor = 1e-9 if exact else 1e-7
            if any(v is not None and v < floor for v in mins):
                # model outputs at the solver's round-off / tolerance level:
                # the two solver objects legitimately disagree there and a
                # log-scale error model amplifies it without bound
                world.probe('noise_level_outputs_skipped')
                continue
            if np.isfinite(p) and abs(p) > 1e8:
                # overflow territory (inf - inf inside the gradient code):
                # not what the property is about
                world.probe('degenerate_magnitude_skipped')
                continue
            if np.isfinite(p) != np.isfinite(sc):
                raise Violation(
                    'gradient.finiteness', 'disagree',
                    '%s at %s%s: plain score %s, score with sensitivities %s'
                    % (kind, list(x), ' under a solver failure in both paths'
                       if fault else '', short(p), short(sc)), step)
            if np.isfinite(p):
                if not close(p, sc, **tol_score):
                    raise Violation(
                        'gradient.score', 'differs',
                        '%s at %s: plain %r, with sensitivities %r '
                        '(order %s)' % (kind, list(x), p, sc, order), step)
                if not np.all(np.isfinite(g)):
                    raise Violation(
                        'gradient.finiteness', 'nonfinite_gradient',
                        '%s at %s: finite score %r with gradient %s' % (
                            kind, list(x), p, short(g)), step)
                coords = [c % len(x) for c in op.get('fd', [])] if len(x) \
                    else []
                if coords and fault is None:
                    world.faults_enabled = False
                    fd = fd_gradient(obj, x, sorted(set(coords)))
                    world.faults_enabled = True
                    scale = 1 + np.max(np.abs(g))
                    for kk, pair in fd.items():
                        if pair is None:
                            world.probe('fd_unreliable_skipped')
                            continue
                        v, err = pair
                        n_fd += 1
                        if abs(v - g[kk]) > tol_fd * scale + 1e-7 + 4 * err:
                            raise Violation(
                                'gradient.finite_difference', 'differs',
                                '%s at %s: d/dx[%d] analytic %r, finite '
                                'difference %r (names %s)' % (
                                    kind, list(x), kk, g[kk], v,
                                    _names(obj)), step)
            else:
                world.probe('nonfinite_on_both_paths')
                world.probe('nonfinite_' + kind + ('_fault' if fault else ''))
            world.log('check', p, sc)
        triples.append((prev, o, kind))
        prev = o
    return {'triples': triples, 'extra': {'fd_coordinates': n_fd}}


def _names(obj):
    r = call(lambda: list(obj.get_parameter_names()))
    return None if is_exc(r) else r


def _unfixed_names(t, h, fx):
    # names of the likelihood before anything was fixed
    tt = Table(list(t.recipes.values()))
    r = dict(t.recipes[h])
    r.pop('fix', None)
    tt.recipes[h] = r
    return tt.get(h).get_parameter_names()


# ---------------------------------------------------------------------------
# generator
# ---------------------------------------------------------------------------
def _vals(rng, n, lo=0.3, hi=1.5):
    return [round(rng.uniform(lo, hi), 3) for _ in range(n)]


def gen_config_history(rng):
    """A valid configuration history of a user's mechanistic model."""
    from . import c11
    cls, src = c11.gen_source(rng)
    while 'gen' in src and src['gen'].get('mm') and rng.random() < 0.7:
        cls, src = c11.gen_source(rng)
    info = c11.model_info(src)
    ref = c11.Ref({'cls': cls, 'src': src})
    dosable = [s.split('.', 1) for s in info['states']]
    fresh = iter('n%d' % i for i in range(100))
    config = []
    n = rng.randint(0, 7)
    all_out = info['states'] + info['inter']
    for _ in range(n):
        k = rng.choice(['set_administration', 'set_administration',
                        'set_dosing_regimen', 'set_outputs',
                        'set_parameter_names', 'set_output_names',
                        'enable_sensitivities', 'copy'])
        op = {'op': k}
        if k == 'set_administration':
            comp, var = rng.choice(dosable)
            op.update(compartment=comp, amount_var=var,
                      direct=rng.random() < 0.5)
        elif k == 'set_dosing_regimen':
            op.update({kk: vv for kk, vv in c11.gen_regimen(rng).items()})
        elif k == 'set_outputs':
            cands = [o_ for o_ in all_out]
            if ref.route is not None and not ref.route['direct']:
                cands.append('dose.drug_amount')
            op['outputs'] = list(dict.fromkeys(
                rng.choice(cands) for _ in range(rng.randint(1, 3))))
        elif k == 'set_parameter_names':
            pub = ref.public_params()
            op['names'] = {rng.choice(pub): next(fresh)}
        elif k == 'set_output_names':
            pub = ref.public_outputs()
            op['names'] = {rng.choice(pub): 'o' + next(fresh)}
        elif k == 'enable_sensitivities':
            op['enabled'] = rng.random() < 0.6
        if k == 'copy':
            exp, new = c11.transition(ref, op)
        else:
            exp, new = c11.transition(ref, op)
        if exp is None:
            config.append(op)
            ref = new
    return {'cls': cls, 'src': src, 'config': config}


def generate(rng, index, tier):
    from .c08 import gen_pop_recipe, set_n_ids_recipe
    mech = gen_config_history(rng)
    recipes = [dict(mech, h='m', kind='mech')]
    t = Table(recipes)
    m = t.get('m')
    n_out = m.n_outputs()
    n_mech = m.n_parameters()
    errs = []
    for j in range(n_out):
        recipes.append({'h': 'e%d' % j, 'kind': 'error',
                        'cls': rng.choice(['G', 'M', 'CM', 'CM', 'LN'])})
        errs.append('e%d' % j)
    n_err = sum(zoo.n_error_params(r['cls']) for r in recipes[1:])
    n_ll = n_mech + n_err
    grid = sorted(set(round(rng.uniform(0.2, 6), 1)
                      for _ in range(rng.randint(2, 5))))

    def add_ll(h, shared=False):
        times, obs = [], []
        # (an individual may lack measurements of one output altogether)
        empty = rng.randrange(n_out) if n_out > 1 and rng.random() < 0.2 \
            else None
        for j_ in range(n_out):
            ts = sorted(rng.sample(grid, rng.randint(1, len(grid))))
            if j_ == empty:
                ts = []
            times.append(ts)
            obs.append(_vals(rng, len(ts), 0.1, 2.0))
        recipes.append({'h': h, 'kind': 'loglik', 'mech': 'm',
                        'errors': errs, 'times': times, 'obs': obs,
                        'shared': shared})
    shape = ['ll', 'lp', 'hier', 'filter'][index % 4] if rng.random() < 0.7 \
        else rng.choice(['ll', 'lp', 'hier', 'filter'])
    targets = []
    if shape == 'filter' and n_out > 3:
        shape = 'hier'
    if shape == 'll':
        add_ll('ll')
        targets = ['ll']
    elif shape == 'lp':
        add_ll('ll', shared=True)
        recipes.append({'h': 'lp', 'kind': 'logpost', 'll': 'll'})
        targets = ['lp', 'll']
    elif shape == 'hier':
        n_ids = rng.randint(1, 3)
        avoid = rng.random() < 0.85
        pop = _no_tg(gen_pop_recipe(rng, n_dim_total=n_ll,
                                    allow_cov=True))
        if avoid:
            pop = _avoid_cov_special(pop)
        pop = set_n_ids_recipe(pop, n_ids)
        recipes.append({'h': 'pop', 'kind': 'pop', 'pop': pop,
                        'n_ids': n_ids})
        lls = []
        for i in range(n_ids):
            add_ll('ll_i%d' % i, shared=True)
            recipes[-1]['id'] = 'id %d' % (i + 1)
            lls.append('ll_i%d' % i)
        hr = {'h': 'hl', 'kind': 'hier', 'lls': lls, 'pop': 'pop'}
        nc = zoo.pop_n_cov(pop)
        if nc:
            hr['covariates'] = [_vals(rng, nc, 0.0, 0.4)
                                for _ in range(n_ids)]
        recipes.append(hr)
        recipes.append({'h': 'hp', 'kind': 'hierpost', 'hl': 'hl',
                        'prior': {'kind': 'gaussian', 'a': 0.5, 'b': 2.0}})
        targets = ['hl', 'hp']
        late_targets = []
        if rng.random() < 0.35:
            # the SAME population model object is used again, later, for
            # another number of individuals (as a controller does when it
            # gets new data): built only when first used, and never mixed
            # with the first likelihood afterwards
            n_ids2 = rng.choice([k_ for k_ in (1, 2, 3, 4) if k_ != n_ids])
            lls2 = []
            for i in range(n_ids2):
                add_ll('ll2_i%d' % i, shared=True)
                recipes[-1]['id'] = 'id %d' % (i + 1)
                lls2.append('ll2_i%d' % i)
            hr2 = {'h': 'hl2', 'kind': 'hier', 'lls': lls2, 'pop': 'pop',
                   'late': True}
            if nc:
                hr2['covariates'] = [_vals(rng, nc, 0.0, 0.4)
                                     for _ in range(n_ids2)]
            recipes.append(hr2)
            late_targets = ['hl2']
    else:
        n_sim = rng.randint(2, 3)
        fpop = set_n_ids_recipe(_no_tg(gen_pop_recipe(
            rng, n_dim_total=n_mech, allow_cov=False)), n_sim)
        recipes.append({'h': 'fpop', 'kind': 'pop', 'pop': fpop,
                        'n_ids': n_sim})
        ts = rng.sample([0.5, 1.0, 2.0, 3.0, 4.5], rng.randint(1, 4))
        fdat = [[_vals(rng, 4, 0.3, 2.0) for _ in range(3)]
                for _ in range(3)]
        if rng.random() < 0.25 and len(ts) >= 2:
            # one (output, time) cell that no individual was measured at
            o_, t_ = rng.randrange(min(3, n_out)), rng.randrange(len(ts))
            for ind_ in fdat:
                ind_[o_][t_] = float('nan')
        user_filter = None
        if rng.random() < 0.6:
            # any of the filter classes, also a composite over two groups
            # of time points; the times are in no particular order
            from .c19 import FILTERS
            # (a mixture filter with its two kernels needs an even number
            # of simulated individuals)
            FILTERS = [f_ for f_ in sorted(FILTERS)
                       if f_ != 'GM' or n_sim % 2 == 0]
            user_filter = 'fflt'
            d = [[row[:len(ts)] for row in ind[:n_out]] for ind in fdat]
            if len(ts) >= 2 and rng.random() < 0.5:
                cut = rng.randint(1, len(ts) - 1)
                recipes.append({
                    'h': 'fflt', 'kind': 'filter', 'cls': 'COMP', 'subs': [
                        {'cls': rng.choice(sorted(FILTERS)),
                         'data': [[row[:cut] for row in ind] for ind in d]},
                        {'cls': rng.choice(sorted(FILTERS)),
                         'data': [[row[cut:] for row in ind] for ind in d]}]})
            else:
                recipes.append({'h': 'fflt', 'kind': 'filter',
                                'cls': rng.choice(sorted(FILTERS)),
                                'data': d})
        recipes.append({
            'h': 'fp', 'kind': 'filterpost', 'mech': 'm', 'pop': 'fpop',
            'times': ts, 'n_sim': n_sim, 'sigma': rng.random() < 0.4,
            'log_scale': rng.random() < 0.3, 'filter': user_filter,
            'prior': {'kind': 'gaussian', 'a': 0.5, 'b': 2.0},
            'data': fdat})
        targets = ['fp']
    t = Table(recipes)
    points = {}
    if shape != 'hier':
        late_targets = []
    for h in targets + late_targets:
        obj = t.get(h)
        n = obj.n_parameters()
        if shape in ('hier', 'filter'):
            pop_rec = [r for r in recipes if r['kind'] == 'pop'][0]['pop']
            points[h] = [tame_point(rng, obj, pop_rec) for _ in range(3)]
        else:
            points[h] = [_vals(rng, n) for _ in range(3)]
    faults_on = rng.random() < 0.5
    ops = []
    n_ops = rng.randint(2, 20 if tier == 'thorough' else 9)
    shadow_fixed = set()
    n_all = n_ll
    after_fix = False
    if shape in ('ll', 'lp') and rng.random() < 0.3:
        # the very first sensitivity evaluation lands outside the support of
        # an error model (-inf), the next one at the same point inside it
        j = rng.randrange(n_out)
        idx = n_mech + sum(zoo.n_error_params(recipes[1 + i]['cls'])
                           for i in range(j))
        idx += zoo.n_error_params(recipes[1 + j]['cls']) - 1
        pt = rng.randint(0, 2)
        ops.append({'op': 'check', 'on': 'll', 'point': pt,
                    'order': 's1_first', 'fd': [], 'negate': [idx]})
        ops.append({'op': 'check', 'on': 'll', 'point': pt,
                    'order': 's1_first', 'fd': list(range(n_all))})
    if shape in ('ll', 'lp') and rng.random() < 0.2 and any(
            recipes[1 + j]['cls'] in ('M', 'CM') for j in range(n_out)):
        # a negative mechanistic parameter (say an initial amount): the model
        # output may turn negative, and with it the standard deviation of a
        # multiplicative error model - wherever plain evaluation is not
        # finite there, evaluateS1 must not be either
        pt = rng.randint(0, 2)
        ops.append({'op': 'check', 'on': 'll', 'point': pt,
                    'order': rng.choice(['s1_first', 'plain_first']),
                    'fd': [], 'negate': [rng.randrange(n_mech)]})
    cm = [j for j in range(n_out) if recipes[1 + j]['cls'] == 'CM']
    if shape == 'll' and cm and rng.random() < 0.5:
        # an error model with two parameters: fix one, differentiate, move
        # the fix to the other one in one call (or add / release the other
        # one), differentiate again -- anything the wrapper keeps from the
        # first evaluation is stale now
        j = rng.choice(cm)
        base = n_mech + sum(zoo.n_error_params(recipes[1 + i]['cls'])
                            for i in range(j))
        k = rng.randint(0, 1)
        v1, v2 = (round(rng.uniform(0.3, 1.5), 3) for _ in range(2))
        ops.append({'op': 'fix', 'on': 'll', 'set': [[base + k, v1]]})
        ops.append({'op': 'check', 'on': 'll', 'point': rng.randint(0, 2),
                    'order': 's1_first', 'fd': list(range(n_all))})
        how = rng.random()
        if how < 0.6:
            ops.append({'op': 'fix', 'on': 'll', 'set': [
                [base + k, None], [base + 1 - k, v2]]})
            shadow_fixed.add(base + 1 - k)
        elif how < 0.8:
            # a mechanistic parameter joins: the error model's own fixed set
            # is unchanged, the likelihood's changes
            mi = rng.randrange(n_mech)
            ops.append({'op': 'fix', 'on': 'll', 'set': [[mi, v2]]})
            shadow_fixed.update([base + k, mi])
        else:
            mi = rng.randrange(n_mech)
            ops.append({'op': 'fix', 'on': 'll', 'set': [
                [base + k, None], [mi, v2]]})
            shadow_fixed.add(mi)
        ops.append({'op': 'check', 'on': 'll', 'point': rng.randint(0, 2),
                    'order': 's1_first', 'fd': list(range(n_all))})
    for _ in range(n_ops):
        r = rng.random()
        if after_fix and shape == 'll':
            # straight after a fix: sensitivities first (a plain evaluation
            # would rebuild the sensitivity solver and heal a stale one),
            # every coordinate differenced
            after_fix = False
            ops.append({'op': 'check', 'on': 'll',
                        'point': rng.randint(0, 2),
                        'order': 's1_first', 'fd': list(range(n_all))})
            continue
        if r < 0.2 and shape == 'll':
            mode = rng.random()
            free = [i for i in range(n_all) if i not in shadow_fixed]
            if mode < 0.4 and shadow_fixed and free:
                # swap of equal size in one call: release one, fix another
                a = rng.choice(sorted(shadow_fixed))
                b = rng.choice(free)
                st = [[a, None], [b, round(rng.uniform(0.3, 1.5), 3)]]
                shadow_fixed.discard(a)
                shadow_fixed.add(b)
            else:
                st = []
                for _ in range(rng.randint(1, 3)):
                    i = rng.randrange(n_all)
                    if rng.random() < 0.3:
                        st.append([i, None])
                        shadow_fixed.discard(i)
                    else:
                        st.append([i, round(rng.uniform(0.3, 1.5), 3)])
                        shadow_fixed.add(i)
            ops.append({'op': 'fix', 'on': 'll', 'set': st})
            after_fix = rng.random() < 0.7
        elif r < 0.27 and shape in ('ll', 'lp', 'hier'):
            on = 'll' if shape != 'hier' else 'll_i0'
            ops.append({'op': 'set_regimen', 'on': on,
                        'dose': round(rng.uniform(0.5, 3), 2),
                        'start': rng.choice([0, 0.5, 1.3]),
                        'duration': rng.choice([0.01, 0.1, 0.5]),
                        'period': rng.choice([None, None, 1])})
        else:
            h = rng.choice(targets)
            op = {'op': 'check', 'on': h, 'point': rng.randint(0, 2),
                  'order': rng.choice(['plain_first', 's1_first']),
                  'fd': [rng.randint(0, 60)
                         for _ in range(rng.choice([0, 2, 4]))]}
            if faults_on and rng.random() < 0.2:
                op['fault'] = {'at_run': rng.choice([0, 0, 1]),
                               'kind': rng.choice(['fail', 'fail', 'nan'])}
            ops.append(op)
    for h in late_targets:
        for _ in range(rng.randint(1, 2)):
            ops.append({'op': 'check', 'on': h, 'point': rng.randint(0, 2),
                        'order': rng.choice(['s1_first', 'plain_first']),
                        'fd': [rng.randint(0, 60) for _ in range(4)]})
    return {'property': PROP, 'recipes': recipes, 'ops': ops,
            'points': points,
            'profile': {'shape': shape, 'faults': faults_on,
                        'config_history': [o['op'] for o in mech['config']]}}


def _dim_flags(p):
    """Per dimension: 'c' value is the individual parameter itself, 'nc' it
    is a standardised fluctuation, 's' pooled / heterogeneous."""
    k = p['cls']
    if k == 'COMP':
        out = []
        for q in p['subs']:
            out += _dim_flags(q)
        return out
    if k in ('COV', 'RED'):
        return _dim_flags(p['of'])
    nd = p.get('n_dim', 1)
    if k in ('P', 'H'):
        return ['s'] * nd
    if k in ('G', 'LN') and p.get('centered') is False:
        return ['nc'] * nd
    return ['c'] * nd


def tame_point(rng, obj, pop_rec):
    """
    A vector that keeps every individual's parameters of order one (so that
    model outputs stay far above the solver's round-off level: a log-normal
    error model turns a 1e-20 output of either sign into a finite score on one
    solver object and -inf on the other, which says nothing about chi).
    """
    names = obj.get_parameter_names()
    ids = obj.get_id()
    flags = [f for f in _dim_flags(pop_rec) if f != 's']
    vals = []
    b = 0
    for nm, i in zip(names, ids):
        if i is not None:
            if 'Epsilon' in nm:
                vals.append(round(rng.uniform(-1, 1), 3))
                continue
            f = flags[b % len(flags)] if flags else 'c'
            b += 1
            vals.append(round(rng.uniform(-0.8, 0.8), 3) if f == 'nc'
                        else round(rng.uniform(0.4, 1.3), 3))
        elif 'Cov.' in nm:
            vals.append(round(rng.uniform(0.0, 0.3), 3))
        elif 'Log std' in nm or 'Std' in nm:
            vals.append(round(rng.uniform(0.1, 0.4), 3))
        elif 'Log mean' in nm:
            vals.append(round(rng.uniform(-0.4, 0.3), 3))
        elif nm.startswith('Sigma '):
            vals.append(round(rng.uniform(0.2, 0.6), 3))
        else:
            vals.append(round(rng.uniform(0.4, 1.3), 3))
    return vals


def _avoid_cov_special(p):
    """COV over pooled / heterogeneous: open known findings (C17)."""
    p = copy.deepcopy(p)
    if p['cls'] == 'COV' and p['of']['cls'] in ('P', 'H'):
        return p['of']
    if p['cls'] == 'COMP':
        p['subs'] = [_avoid_cov_special(q) for q in p['subs']]
    return p


def recipe_tag(scenario):
    kinds = sorted(set(r['kind'] for r in scenario['recipes']))
    cfg = scenario['recipes'][0].get('config', [])
    return '+'.join(kinds) + '|' + ','.join(
        o['op'] + (':i' if o.get('direct') is False else '') for o in cfg)


def op_tag(op):
    if op['op'] == 'check':
        return ':%s:%s%s' % (op['on'], op.get('order', ''),
                             ':fd' if op.get('fd') else '')
    return ':' + str(op.get('on'))


def simplify(sc):
    """Shorter configuration history of the mechanistic model."""
    cfg = sc['recipes'][0].get('config', [])
    for i in range(len(cfg)):
        c = copy.deepcopy(sc)
        del c['recipes'][0]['config'][i]
        yield c


def trig_cov_over(kind):
    def f(sc):
        from .c17 import _walk
        for r in sc['recipes']:
            if r['kind'] == 'pop':
                if any(q['cls'] == 'COV' and q['of']['cls'] == kind
                       for q in _walk(r['pop'])):
                    return True
        return False
    return f


KNOWN_TRIGGERS = {'cov_over_pooled': trig_cov_over('P'),
                  'cov_over_hetero': trig_cov_over('H')}
