"""
C19 -- evaluations are pure: no hidden state, no input mutation, any process.

Oracle: (a) every result equals the same query on a *fresh replica* built from
the same recipes and never touched (one replica per distinct query);
(b) hence every repetition equals the first answer; (c) pints.ParallelEvaluator
on the simulated machine, under every schedule, returns the scores of
pints.SequentialEvaluator position by position; (d) arguments are unchanged
after each call; (e) after the caller changes his own mechanistic / error
models the derived objects still answer like the replica built from the models
as handed over; (f) after an injected solver failure the faulted call returns
the documented value and every later call is again exact.
"""
import copy

import numpy as np

from .. import zoo, mp_stub
from ..kernel import (Held, Violation, call, close, identical, is_exc, short,
                      snapshot, snapshot_equal)

PROP = 'C19'
MUTATORS = {'mutate_user', 'eval', 'par_eval', 'fix_ll', 'mutate_data'}
OBSERVERS = {'eval', 'par_eval'}
BUDGET = {'quick': {'runs': 1800, 'wall': 75},
          'thorough': {'runs': 60000, 'wall': 1500}}
RULE = ('seeded generation of interleaved evaluation histories on 2-6 objects '
        'derived from shared user models (value / pointwise / sensitivities / '
        'simulate / seeded sampling / initial points), caller-side mutations '
        'of the user models, read-only and aliased arguments, injected solver '
        'failures, and parallel-vs-sequential batches on the simulated machine '
        'under seeded schedules; distinct = distinct SHA-256 of (object '
        'kinds, sequence of (operation, object kind, fault kind)); '
        'non-trivial = an evaluation preceded by a state-changing operation '
        '(another evaluation, a fault, a user mutation)')


# ---------------------------------------------------------------------------
# object table (lazy, so a replica builds only what one query needs)
# ---------------------------------------------------------------------------
class Table(object):
    def __init__(self, recipes, pre_eval=False):
        self.recipes = {r['h']: r for r in recipes}
        self.objs = {}
        # only the objects under test carry the user's earlier evaluations
        # (an evaluation leaves no trace, so replicas do without them)
        self.pre_eval = pre_eval
        # arrays / data frames handed to constructors: (handle, what,
        # snapshot taken before the call, the object itself)
        self.inputs = []

    def get(self, h):
        if h not in self.objs:
            self.objs[h] = self._build(self.recipes[h])
        return self.objs[h]

    def _build(self, r):
        import chi
        k = r['kind']
        if k == 'mech':
            return zoo.build_mech(r)
        if k == 'error':
            return zoo.build_error(r)
        if k == 'pop':
            pm = zoo.build_pop(r['pop'])
            pm.set_n_ids(r.get('n_ids', 1))
            return pm
        if k == 'loglik':
            mech = self.get(r['mech'])
            errs = [self.get(h) for h in r['errors']]
            obs = [np.array(o, dtype=float) for o in r['obs']]
            times = [np.array(t, dtype=float) for t in r['times']]
            for a in obs + times:
                self.inputs.append((r['h'], 'data array', snapshot(a), a))
            ll = chi.LogLikelihood(mech, errs, obs, times)
            if r.get('id') is not None:
                ll.set_id(r['id'])
            if r.get('fix'):
                names = ll.get_parameter_names()
                ll.fix_parameters({names[i]: v for i, v in r['fix']})
            return ll
        if k == 'logpost':
            ll = self.get(r['ll'])
            return chi.LogPosterior(ll, zoo.build_prior(
                {'n': ll.n_parameters(), 'kind': 'lognormal'}))
        if k == 'hier':
            lls = [self.get(h) for h in r['lls']]
            cov = r.get('covariates')
            return chi.HierarchicalLogLikelihood(
                lls, self.get(r['pop']),
                covariates=None if cov is None else np.array(cov))
        if k == 'hierpost':
            hl = self.get(r['hl'])
            return chi.HierarchicalLogPosterior(hl, zoo.build_prior(
                dict(r.get('prior', {'kind': 'lognormal'}),
                     n=hl.n_parameters(exclude_bottom_level=True))))
        if k == 'filterpost':
            mech = self.get(r['mech'])
            pop = self.get(r['pop'])
            n_out = mech.n_outputs()
            ts = r['times']
            data = np.array(r['data'])[:, :n_out, :len(ts)]
            self.inputs.append((r['h'], 'filter data', snapshot(data), data))
            flt = chi.GaussianFilter(data)
            if r.get('filter'):
                # the user's own filter object (any class; he may have
                # evaluated it before handing it over, and may hand it to
                # several posteriors)
                flt = self.get(r['filter'])
            sigma = r.get('sigma')
            n_top = pop.n_parameters() + (0 if sigma else n_out)
            return chi.PopulationFilterLogPosterior(
                flt, ts, mech, pop, zoo.build_prior(
                    dict(r.get('prior', {'kind': 'lognormal'}), n=n_top)),
                sigma=([0.3] * n_out if sigma else None),
                n_samples=r.get('n_sim', 3),
                error_on_log_scale=bool(r.get('log_scale')))
        if k == 'pred':
            return chi.PredictiveModel(
                self.get(r['mech']), [self.get(h) for h in r['errors']])
        if k == 'poppred':
            return chi.PopulationPredictiveModel(
                self.get(r['pred']), self.get(r['pop']))
        if k == 'redmech':
            m = chi.ReducedMechanisticModel(self.get(r['mech']).copy())
            names = m.parameters()
            m.fix_parameters({names[i]: v for i, v in r['fix']})
            return m
        if k == 'rederror':
            e = chi.ReducedErrorModel(copy.deepcopy(self.get(r['error'])))
            names = e.get_parameter_names()
            e.fix_parameters({names[i]: v for i, v in r['fix']})
            return e
        if k == 'redpop':
            p = chi.ReducedPopulationModel(copy.deepcopy(self.get(r['pop'])))
            names = p.get_parameter_names()
            p.fix_parameters({names[i % len(names)]: v for i, v in r['fix']})
            return p
        if k == 'filter':
            flt = build_filter(r)
            if self.pre_eval and r.get('pre_eval'):
                # the user has already evaluated his filter before he hands
                # it to a posterior
                pe = r['pre_eval']
                call(query, flt, 'filter', pe['q'],
                     np.array(pe['x'], dtype=float), {})
            return flt
        if k in ('ctrl_post', 'ctrl_pred', 'ctrl'):
            import pandas as pd
            mech = self.get(r['mech'])
            errs = [self.get(h) for h in r['errors']]
            ctrl = chi.ProblemModellingController(mech, errs)
            outs = ctrl._mechanistic_model.outputs()
            rows = []
            for i in range(r['n_ids']):
                for j, o in enumerate(outs):
                    ts = r['times'][(i + j) % len(r['times'])]
                    vs = r['values'][(i + j) % len(r['values'])]
                    for t_, v in zip(ts, vs):
                        rows.append({'ID': 'p%d' % i, 'Time': t_,
                                     'Observable': o, 'Value': v,
                                     'Dose': np.nan, 'Duration': np.nan})
                if r.get('doses'):
                    for (t_, d, dur) in r['doses'][i % len(r['doses'])]:
                        rows.append({'ID': 'p%d' % i, 'Time': t_,
                                     'Observable': np.nan, 'Value': np.nan,
                                     'Dose': d, 'Duration': dur})
            df = pd.DataFrame(rows)
            if self.pre_eval and r.get('row_order') and not r.get('pop'):
                # the same rows with the individuals in another order or
                # interleaved (each individual's own rows keep their order:
                # chi wants increasing times).  Only for the objects under
                # test; replicas get the canonical order.  What a controller
                # builds for ONE individual must not depend on it.
                if r['row_order'] == 'reversed':
                    ranks = {i_: -int(i_[1:]) for i_ in set(df['ID'])}
                    order = sorted(range(len(df)),
                                   key=lambda k_: ranks[df['ID'][k_]])
                else:
                    seen_ = {}
                    pos_ = []
                    for k_ in range(len(df)):
                        c_ = seen_.get(df['ID'][k_], 0)
                        seen_[df['ID'][k_]] = c_ + 1
                        pos_.append(c_)
                    order = sorted(range(len(df)), key=lambda k_: pos_[k_])
                df = df.iloc[order].reset_index(drop=True)
            kw = {'dose_key': None, 'dose_duration_key': None}
            if r.get('doses'):
                kw = {'dose_key': 'Dose', 'dose_duration_key': 'Duration'}
                if r.get('dose_form') == 'bolus':
                    # no duration column at all: the documented way to say
                    # so is dose_duration_key=None
                    df = df.drop(columns=['Duration'])
                    kw['dose_duration_key'] = None
            if r.get('keys') == 'custom':
                # the caller's own column names, passed through the key
                # arguments, plus a column the controller has no use for
                ren = {'ID': 'Subject', 'Time': 't [h]', 'Observable': 'What',
                       'Value': 'y', 'Dose': 'Amount', 'Duration': 'Length'}
                df = df.rename(columns=ren)
                df['Comment'] = 'n/a'
                kw = {a: (ren[b] if b is not None else None)
                      for a, b in kw.items()}
                kw.update(id_key='Subject', time_key='t [h]', obs_key='What',
                          value_key='y')
            if r.get('pop'):
                ctrl.set_population_model(self.get(r['pop']))
            self.inputs.append((r['h'], 'data frame', snapshot(df), df))
            ctrl.set_data(df, **kw)
            if k == 'ctrl_pred':
                return ctrl.get_predictive_model()
            ctrl.set_log_prior(zoo.build_prior(
                {'n': ctrl.get_n_parameters(), 'kind': 'lognormal'}))
            if k == 'ctrl':
                return ctrl
            return ctrl.get_log_posterior(
                individual=r.get('individual'))
        raise ValueError('unknown kind ' + k)


FILTERS = {'G': 'GaussianFilter', 'GKDE': 'GaussianKDEFilter',
           'GM': 'GaussianMixtureFilter', 'LN': 'LogNormalFilter',
           'LNKDE': 'LogNormalKDEFilter'}


def build_filter(r):
    import chi
    if r.get('cls') == 'COMP':
        return chi.ComposedPopulationFilter(
            [build_filter(x) for x in r['subs']])
    data = np.array(r['data'], dtype=float)
    return getattr(chi, FILTERS[r['cls']])(data)


def deps(recipes, h, acc=None):
    """Handles that h is (transitively) built from."""
    acc = acc if acc is not None else set()
    r = [x for x in recipes if x['h'] == h][0]
    for key in ('mech', 'pop', 'll', 'hl', 'pred', 'error', 'filter'):
        if key in r and isinstance(r[key], str):
            if r[key] not in acc:
                acc.add(r[key])
                deps(recipes, r[key], acc)
    for key in ('errors', 'lls'):
        for x in r.get(key, []):
            if x not in acc:
                acc.add(x)
                deps(recipes, x, acc)
    return acc


# ---------------------------------------------------------------------------
# queries
# ---------------------------------------------------------------------------
EVALS = {
    'mech': ['sim'],
    'redmech': ['sim'],
    'error': ['e_ll', 'e_pw', 'e_s1', 'e_sample'],
    'rederror': ['e_ll', 'e_pw', 'e_s1', 'e_sample'],
    'pop': ['p_ll', 'p_s1', 'p_indiv', 'p_sample'],
    'redpop': ['p_ll', 'p_s1', 'p_indiv', 'p_sample'],
    'loglik': ['call', 'pw', 's1', 'names'],
    'logpost': ['call', 's1', 'init', 'names'],
    'hier': ['call', 's1', 'names'],
    'hierpost': ['call', 's1', 'init', 'names'],
    'filterpost': ['call', 's1', 'init', 'names'],
    'pred': ['sample', 'sample_df', 'regimen', 'names'],
    'poppred': ['sample', 'sample_df', 'names'],
    'filter': ['f_ll', 'f_s1'],
    'ctrl_post': ['call', 's1', 'init'],
    'ctrl_pred': ['sample', 'sample_df', 'regimen'],
    'ctrl': ['c_call', 'c_s1', 'c_names'],
}


def n_params_of(obj, kind):
    if kind in ('mech', 'redmech'):
        return obj.n_parameters()
    return obj.n_parameters()


def make_arg(vec, variant):
    """F6: how the parameter vector is handed over."""
    if variant == 'list':
        return list(vec)
    if variant == 'float32':
        return np.array(vec, dtype=np.float32)
    a = np.array(vec, dtype=float)
    if variant == 'readonly':
        a.flags.writeable = False
        return a
    if variant == 'view':
        big = np.zeros(2 * len(vec) + 3)
        big[1:1 + 2 * len(vec):2] = vec
        return big[1:1 + 2 * len(vec):2]
    return a


def query(obj, kind, q, x, aux):
    """Executes one evaluation; x is the parameter argument (or None)."""
    if q == 'sim':
        return obj.simulate(x, np.array(aux['times'], dtype=float))
    if q == 'e_ll':
        return obj.compute_log_likelihood(x, aux['mo'], aux['obs'])
    if q == 'e_pw':
        return obj.compute_pointwise_ll(x, aux['mo'], aux['obs'])
    if q == 'e_s1':
        return obj.compute_sensitivities(x, aux['mo'], aux['ms'], aux['obs'])
    if q == 'e_sample':
        return obj.sample(x, aux['mo'], 3, aux['seed'])
    if q in ('p_ll', 'p_s1', 'p_indiv', 'p_sample'):
        kw = {}
        inner = obj
        while hasattr(inner, 'get_population_model'):
            inner = inner.get_population_model()
        k, nd = int(inner.n_ids()), int(obj.n_dim())
        eta = np.array(aux['eta'][:k, :nd])
        dlogp = np.array(aux['dlogp'][:k, :nd])
        if obj.n_covariates():
            kw['covariates'] = np.array(aux['cov'][:k, :obj.n_covariates()])
        if q == 'p_sample':
            if kw:
                kw['covariates'] = kw['covariates'][0]
            return np.array(obj.sample(x, n_samples=k, seed=aux['seed'],
                                       **kw))
        if q == 'p_indiv':
            return np.array(obj.compute_individual_parameters(
                np.asarray(x), eta, **kw))
        obs = np.array(obj.compute_individual_parameters(
            np.asarray(x), eta, return_eta=True, **kw))
        if q == 'p_ll':
            return obj.compute_log_likelihood(x, obs, **kw)
        return obj.compute_sensitivities(x, obs, dlogp_dpsi=dlogp, **kw)
    if q in ('f_ll', 'f_s1'):
        sim = x
        if q == 'f_ll':
            return obj.compute_log_likelihood(sim)
        return obj.compute_sensitivities(sim)
    if q == 'call':
        return obj(x)
    if q == 'pw':
        return obj.compute_pointwise_ll(x)
    if q == 's1':
        return obj.evaluateS1(x)
    if q == 'init':
        return np.array(obj.sample_initial_parameters(2, aux['seed']))
    if q in ('sample', 'sample_df'):
        kw = {}
        if kind in ('poppred', 'ctrl_pred') and hasattr(
                obj, '_population_model') \
                and obj._population_model.n_covariates():
            kw['covariates'] = aux['cov'][0, :obj._population_model
                                          .n_covariates()]
        return obj.sample(
            x, aux['times_unsorted'], n_samples=2, seed=aux['seed'],
            return_df=(q == 'sample_df'), include_regimen=True, **kw)
    if q == 'regimen':
        return obj.get_dosing_regimen(aux['final_time'])
    if q in ('c_call', 'c_s1', 'c_names'):
        if q == 'c_names':
            lst = obj.get_parameter_names()
            out = [str(n) for n in lst] + ['n=%d' % obj.get_n_parameters()]
            if isinstance(lst, list):
                lst.append('scribbled by the caller')
            return out
        ids = sorted(str(i_) for i_ in obj._ids)
        post = obj.get_log_posterior(
            individual=str(ids[aux['ind'] % len(ids)]))
        return post(x) if q == 'c_call' else post.evaluateS1(x)
    if q == 'names':
        lst = obj.get_parameter_names()
        out = [str(n) for n in lst] + ['n=%d' % obj.n_parameters()]
        # the list handed out is the caller's: he may do with it what he
        # likes (here: he scribbles on it) without changing the object
        if isinstance(lst, list):
            lst.append('scribbled by the caller')
            if len(lst) > 1:
                lst[0] = 'scribbled by the caller'
        return out
    raise ValueError(q)


def aux_of(scenario, pidx):
    a = scenario['aux'][pidx % len(scenario['aux'])]
    out = dict(a)
    for k in ('mo', 'obs', 'ms', 'eta', 'dlogp', 'cov'):
        out[k] = np.array(a[k], dtype=float)
    # covariates belong to the individuals, not to the evaluation point: the
    # same matrix for different points (a stale cache keyed on the covariates
    # would otherwise never be hit)
    out['cov'] = np.array(scenario['aux'][0]['cov'], dtype=float)
    out['ind'] = pidx
    # the caller's own arrays (checked for modification after the call)
    for k in ('times', 'times_unsorted'):
        if k in out:
            out[k] = np.array(out[k], dtype=float)
    return out


SCRIBBLE = 1.25e-77


def score_only(a, b):
    """A non-finite score comes with a meaningless (partly uninitialised)
    gradient: only the scores are compared then."""
    if (isinstance(a, tuple) and isinstance(b, tuple) and len(a) == 2
            and len(b) == 2 and np.isscalar(a[0]) and np.isscalar(b[0])
            and not np.isfinite(a[0]) and not np.isfinite(b[0])):
        return a[0], b[0]
    return a, b


def tolerance(q):
    if q in ('s1', 'p_s1', 'e_s1', 'c_s1'):
        return dict(rtol=1e-9, atol=1e-11, norm=True)
    return dict(rtol=1e-10, atol=1e-12)


# ---------------------------------------------------------------------------
# interpreter
# ---------------------------------------------------------------------------
def _nan_without_fault(ref):
    return (not is_exc(ref)) and np.isscalar(ref) and not np.isfinite(ref)


def fault_expectation(kind, q, res, n):
    """Documented failure value of a faulted call (F1)."""
    if q == 'call':
        return (not is_exc(res)) and res == -np.inf
    if q == 's1':
        return (not is_exc(res)) and (not np.isfinite(res[0])) and len(
            np.atleast_1d(res[1])) == n
    return is_exc(res) and res.type == 'SimulationError'


def run(scenario, world):
    import pints
    recipes = scenario['recipes']
    main = Table(recipes, pre_eval=True)
    kinds = {r['h']: r['kind'] for r in recipes}
    # build everything in recipe order (derived objects copy the user models
    # at this moment)
    for r in recipes:
        main.get(r['h'])

    def check_inputs(step):
        for h_, what, snap, obj_ in main.inputs:
            if h_ in data_dirty:
                continue
            if not snapshot_equal(snap, obj_):
                raise Violation(
                    'argument_mutated', 'constructor_input',
                    'the %s handed to the constructor of %s was modified' % (
                        what, h_), step)
    data_dirty = set()
    held = Held()
    scribbled = []   # all-inf gradients the caller has overwritten (kept alive)
    check_inputs(-1)
    # building the derived objects must leave the user's own models as they
    # were: compare their names with those of the same model built alone
    for r in recipes:
        # (population models are told their dimension names and number of
        # individuals by whoever uses them: that is chi's design)
        if r['kind'] not in ('mech', 'error'):
            continue
        was_m = world.muted
        world.muted += 1
        try:
            alone = call(Table(recipes).get, r['h'])
        finally:
            world.muted = was_m
        mine = main.get(r['h'])
        if is_exc(alone):
            continue
        f_ = (lambda o_: list(o_.parameters()) + list(o_.outputs())) \
            if r['kind'] == 'mech' else (
                lambda o_: list(o_.get_parameter_names()))
        a_, b_ = call(f_, mine), call(f_, alone)
        if is_exc(a_) or is_exc(b_) or a_ != b_:
            raise Violation(
                'user_model_changed', 'by_construction',
                'the user\'s %s model %s reports %s after the derived '
                'objects were built from it; built alone it reports %s' % (
                    r['kind'], r['h'], short(a_), short(b_)), -1)
    refs = {}           # distinct query -> reference result
    dirty = set()       # user models changed by the caller (F5)
    triples = []
    prev = 'init'
    points = scenario['points']
    extra = {'assign': [], 'traces': 0}

    netfix = {}         # handle -> {original index: value} (fix_ll ops)
    for r in recipes:
        if r['kind'] == 'loglik' and r.get('fix'):
            netfix[r['h']] = {int(i): v for i, v in r['fix']}

    def cur_recipes():
        out = []
        for r in recipes:
            if r['h'] in netfix:
                r = dict(r, fix=[[i, v] for i, v in sorted(
                    netfix[r['h']].items())])
            out.append(r)
        return out

    def free(h, vec):
        fx = netfix.get(h)
        if vec is None or not fx:
            return vec
        return [v for i, v in enumerate(vec) if i not in fx]

    def reference(h, q, pidx, variant_free_x, aux):
        key = (h, q, pidx, repr(sorted(netfix.get(h, {}).items())))
        if key not in refs:
            was_f, was_m = world.faults_enabled, world.muted
            world.faults_enabled = False
            world.muted += 1
            try:
                t = Table(cur_recipes())
                obj = call(t.get, h)
                refs[key] = obj if is_exc(obj) else call(
                    query, obj, kinds[h], q,
                    None if variant_free_x is None
                    else np.array(variant_free_x, dtype=float), aux)
            finally:
                world.faults_enabled = was_f
                world.muted = was_m
        return refs[key]

    for step, op in enumerate(scenario['ops']):
        o = op['op']
        world.log('op', step, o, op.get('on'))
        if o == 'eval':
            h = op['on']
            if h not in kinds or h in dirty:
                continue
            kind = kinds[h]
            q = op['q']
            if q not in EVALS[kind]:
                continue
            pidx = op['point']
            vec = points.get(h)
            vec = None if vec is None else free(h, vec[pidx % len(vec)])
            aux = aux_of(scenario, pidx)
            if q in ('regimen', 'init', 'names', 'c_names'):
                x = None
            elif kind == 'filter':
                x = np.array(vec, dtype=float)
                if op.get('variant') == 'readonly':
                    x.flags.writeable = False
            else:
                x = make_arg(vec, op.get('variant', 'array'))
            snap_x = snapshot(x)
            snap_aux = {k: snapshot(v) for k, v in aux.items()}
            obj = main.get(h)
            world.begin_op(op.get('fault'))
            res = call(query, obj, kind, q, x, aux)
            faulted = any('fault' in r for r in world.solver_runs)
            world.end_op()
            # what earlier evaluations returned is the caller's
            held.verify(step)
            if q not in ('regimen', 'names', 'c_names') and not (
                    isinstance(res, tuple) and len(res) == 2
                    and np.isscalar(res[0]) and not np.isfinite(res[0])):
                # (not the uninitialised gradient next to a -inf score)
                held.keep('%s.%s (step %d)' % (kind, q, step), res)
            elif isinstance(res, tuple) and len(res) == 2 and isinstance(
                    res[1], np.ndarray) and res[1].size > 0 \
                    and res[1].dtype.kind == 'f':
                # The gradient next to a non-finite score is never compared,
                # but it is the caller's: when it is the deliberate all-inf
                # fill the caller overwrites it, and no later evaluation may
                # hand that overwritten array (or its content) back.  The
                # arrays stay referenced, so uninitialised memory of a later
                # result cannot be theirs.
                g = res[1]
                if any(g is s_ for s_ in scribbled) or bool(
                        np.all(g == SCRIBBLE)):
                    raise Violation(
                        'result_overwritten', 'caller_change_handed_back',
                        '%s.%s returned, next to a non-finite score, the '
                        'gradient array an earlier evaluation had handed to '
                        'the caller (who had overwritten it)' % (kind, q),
                        step)
                if g.flags.writeable and bool(np.all(g == np.inf)):
                    g[...] = SCRIBBLE
                    scribbled.append(g)
                    world.probe('inf_gradient_overwritten_by_caller')
            # (d) arguments unchanged
            if not snapshot_equal(snap_x, x) or any(
                    not snapshot_equal(snap_aux[k], aux[k]) for k in aux):
                bad = 'parameters' if not snapshot_equal(snap_x, x) else [
                    k for k in aux if not snapshot_equal(snap_aux[k], aux[k])]
                raise Violation(
                    'argument_mutated', str(q),
                    '%s.%s modified its argument %s' % (kind, q, bad), step)
            if op.get('variant') == 'float32' and not faulted:
                # a single-precision vector is a legal argument; its result
                # is not compared (the arithmetic may legitimately run in
                # single precision), but it must leave no trace in the
                # double-precision evaluations that follow
                world.probe('single_precision_evaluation')
                triples.append((prev, q, kind))
                prev = q
                check_inputs(step)
                continue
            if faulted:
                world.probe('faulted_evaluation')
                n = None if vec is None else len(vec)
                nan_fault = (op.get('fault') or {}).get('kind') == 'nan'
                if nan_fault:
                    # the solver returned non-finite values WITHOUT raising:
                    # no documented value to expect; what matters is that the
                    # object is unchanged for the evaluations that follow
                    world.probe('evaluation_with_non_finite_solver_output')
                elif not fault_expectation(kind, q, res, n) and not (
                        q == 'call' and not is_exc(res) and np.isscalar(res)
                        and np.isnan(res) and _nan_without_fault(
                            reference(h, q, pidx, vec, aux))):
                    # (-inf for the failed individual plus a term that is
                    # nan at this point even without any fault is nan: the
                    # point is outside the numerical range anyway)
                    raise Violation(
                        'fault.documented_value', q,
                        '%s.%s under a solver failure returned %s' % (
                            kind, q, short(res)), step)
                if (not is_exc(res)) and q == 'call':
                    world.probe('minus_inf_returned_after_solver_failure')
            else:
                ref = reference(h, q, pidx, vec, aux)
                ref_c, res_c = score_only(ref, res)
                same = identical(ref_c, res_c) if q in (
                    'e_sample', 'p_sample', 'sample', 'sample_df', 'init',
                    'regimen', 'names', 'c_names') else close(
                        ref_c, res_c, **tolerance(q))
                if not same:
                    mism = 'values'
                    if is_exc(res) and not is_exc(ref):
                        mism = 'raises'
                    elif is_exc(ref) and not is_exc(res):
                        mism = 'replica_raises'
                    raise Violation(
                        'replica.' + q, mism,
                        '%s %s point %d (%s argument) after %d operations:\n'
                        '  object:  %s\n  replica: %s' % (
                            kind, q, pidx, op.get('variant', 'array'), step,
                            short(res, 500) + (res.tb if is_exc(res) else ''),
                            short(ref, 500) + (ref.tb if is_exc(ref) else '')),
                        step)
                # (never log an uninitialised gradient: it is memory garbage)
                world.log('res', q, _loggable(res_c))
            triples.append((prev, q, kind))
            prev = q
            check_inputs(step)
        elif o == 'mutate_data':
            # F5 for data: the caller overwrites his own observation / time
            # arrays after the likelihood was built from them
            h = op['on']
            n_ch = 0
            for h_, what, snap, obj_ in main.inputs:
                if h_ == h and what == 'data array' and len(obj_):
                    obj_[op['pos'] % len(obj_)] += op['delta']
                    n_ch += 1
            if n_ch:
                data_dirty.add(h)
                world.fire('caller_overwrote_data_arrays')
        elif o == 'fix_ll':
            h = op['on']
            if h not in kinds or kinds[h] != 'loglik' or h in dirty:
                continue
            if any(r.get('ll') == h or h in r.get('lls', [])
                   for r in recipes):
                continue        # a posterior caches its dimension
            t0 = Table([dict(r, fix=None) if r['h'] == h else r
                        for r in recipes])
            was = world.muted
            world.muted += 1
            try:
                names0 = t0.get(h).get_parameter_names()
            finally:
                world.muted = was
            fx = netfix.setdefault(h, {})
            d = {}
            for i, v in op['set']:
                i = i % len(names0)
                d[names0[i]] = v
                if v is None:
                    fx.pop(i, None)
                else:
                    fx[i] = v
            if len(fx) >= len(names0):
                # keep at least one free parameter
                k0 = sorted(fx)[0]
                fx.pop(k0)
                d[names0[k0]] = None
            r = call(main.get(h).fix_parameters, d)
            if is_exc(r):
                raise Violation('op.fix', 'raises', '%r\n%s' % (r, r.tb),
                                step)
            world.probe('likelihood_fixed_between_evaluations')
            triples.append((prev, 'fix_ll', 'loglik'))
            prev = 'fix_ll'
        elif o == 'mutate_user':
            h = op['on']
            if h not in kinds:
                continue
            obj = main.get(h)
            r = call(apply_user_mutation, obj, kinds[h], op)
            if is_exc(r):
                # an invalid change of the caller's own model is his business
                world.probe('user_mutation_rejected')
                continue
            dirty.add(h)
            world.fire('user_model_changed')
            triples.append((prev, 'mutate_user', kinds[h]))
            prev = 'mutate_user'
        elif o == 'par_eval':
            h = op['on']
            if h not in kinds or h in dirty:
                continue
            kind = kinds[h]
            if kind not in ('logpost', 'hierpost', 'filterpost', 'ctrl_post'):
                continue
            obj = main.get(h)
            vecs = points[h]
            xs = [list(vecs[i % len(vecs)]) for i in op['points']]
            s1 = bool(op.get('s1'))
            # sequential scores from an untouched replica
            was_f, was_m = world.faults_enabled, world.muted
            world.muted += 1
            try:
                t = Table(recipes)
                rep = t.get(h)
                f_seq = rep.evaluateS1 if s1 else rep
                world.fault_magic = dict(
                    (float(v), 'fail') for v in op.get('magic', []))
                seq = call(pints.SequentialEvaluator(f_seq).evaluate, xs)
            finally:
                world.muted = was_m
            f_par = obj.evaluateS1 if s1 else obj
            batches = op.get('batches', 1)

            def fn():
                ev = pints.ParallelEvaluator(
                    f_par, n_workers=op['n_workers'],
                    max_tasks_per_worker=op['max_tasks'])
                outs = []
                try:
                    for b in range(batches):
                        outs.append(ev.evaluate(xs))
                        if op.get('parent_between') and b + 1 < batches:
                            # parent-side evaluation between batches: the
                            # next fork starts from different hidden state
                            for xx in xs[:2]:
                                call(obj.evaluateS1 if not s1 else obj, xx)
                finally:
                    ev._stop()
                return outs
            pol = {}
            if op.get('starve') is not None:
                pol['starve'] = op['starve']
            world.magic_fired = set()
            try:
                outs, k = mp_stub.run(world, op['sched'], fn, policy=pol)
            except mp_stub.Deadlock:
                raise
            except Exception as e:
                outs, k = e, None
            finally:
                world.fault_magic = {}
            if k is not None:
                extra['assign'].append(repr(sorted(
                    (pid, tuple(v)) for pid, v in k.assign.items())))
                extra['traces'] += 1
                if k.n_forks > op['n_workers']:
                    world.probe('worker_reforked_mid_batch')
                world.fire('schedule_explored')
                if op.get('magic'):
                    world.probe('fault_inside_worker')
            if isinstance(outs, Exception):
                if not is_exc(seq):
                    raise Violation(
                        'parallel.scores', 'raises',
                        'parallel evaluation raised %r, sequential did not'
                        % (outs,), step)
            elif is_exc(seq):
                raise Violation(
                    'parallel.scores', 'sequential_raises',
                    'sequential evaluation raised %r, parallel did not'
                    % (seq,), step)
            else:
                magic = set(float(v) for v in op.get('magic', []))
                individual = kind == 'logpost' or (
                    kind == 'ctrl_post' and not main.recipes[h].get('pop'))
                # (only where the value reached the solver at all: with
                # every mechanistic parameter fixed it does not)
                magic &= world.magic_fired
                hit = [i for i, xx in enumerate(xs)
                       if magic and individual and float(xx[0]) in magic]
                for b, out in enumerate(outs):
                    for i in hit:
                        v = out[i][0] if s1 else out[i]
                        if np.isfinite(v):
                            raise Violation(
                                'fault.documented_value', 'worker',
                                'solver failure inside a worker: position %d '
                                'returned %s' % (i, short(out[i])), step)
                if hit:
                    world.probe('minus_inf_from_worker_after_solver_failure',
                                len(hit))
                for b, out in enumerate(outs):
                    for i, (a, c) in enumerate(zip(out, seq)):
                        a_c, c_c = score_only(
                            tuple(a) if s1 else a, tuple(c) if s1 else c)
                        if not close(a_c, c_c,
                                     **tolerance('s1' if s1 else 'x')):
                            raise Violation(
                                'parallel.scores', 'values',
                                '%s batch %d position %d (workers %d, '
                                'max_tasks %d, sched %d): parallel %s, '
                                'sequential %s' % (
                                    kind, b, i, op['n_workers'],
                                    op['max_tasks'], op['sched'],
                                    short(a), short(c)), step)
            triples.append((prev, 'par_eval', kind))
            prev = 'par_eval'
        elif o == 'perturb':
            from .c16 import perturb
            perturb(op)
            world.fire('global_rng_' + op['how'])
    return {'triples': triples,
            'extra': {'assignments': extra['assign'],
                      'parallel_ops': extra['traces']}}


def _loggable(a):
    if isinstance(a, tuple):
        return [np.asarray(v) if not np.isscalar(v) else v for v in a]
    return a


def apply_user_mutation(obj, kind, op):
    """F5: the caller changes his own model after handing it over."""
    how = op['how']
    if kind == 'mech':
        if how == 'refix':
            return obj.fix_parameters({op['name']: op['value']})
        if how == 'unfix':
            return obj.fix_parameters({op['name']: None})
        if how == 'admin' and not hasattr(obj, 'administration'):
            raise ValueError('no route api')
        if how == 'regimen':
            return obj.set_dosing_regimen(op['dose'], start=op['start'],
                                          duration=0.1)
        if how == 'outputs':
            outs = obj.outputs()
            return obj.set_outputs(list(reversed(outs)) + outs[:1])
        if how == 'rename':
            names = obj.parameters()
            return obj.set_parameter_names({names[0]: 'renamed by caller'})
        if how == 'sens':
            return obj.enable_sensitivities(True)
        if how == 'admin':
            adm = obj.administration()
            if adm is None:
                raise ValueError('no route')
            return obj.set_administration(
                adm['compartment'], amount_var=op['amount_var'],
                direct=not adm['direct'])
    if kind == 'error':
        n = obj.n_parameters()
        return obj.set_parameter_names(['caller %d' % i for i in range(n)])
    raise ValueError('no mutation for ' + kind)


# ---------------------------------------------------------------------------
# generator
# ---------------------------------------------------------------------------
def _vals(rng, n, lo=0.3, hi=1.5):
    return [round(rng.uniform(lo, hi), 3) for _ in range(n)]


def generate(rng, index, tier):
    from .c08 import gen_mech_recipe, gen_pop_recipe, set_n_ids_recipe
    from .c11 import model_info
    mech, n_out = gen_mech_recipe(rng, allow_nonlinear=rng.random() < 0.3)
    mrec = dict(mech, h='m', kind='mech')
    user_reduced = rng.random() < 0.25
    if user_reduced:
        # the caller's own model is a reduced model with a fixed parameter
        names0 = zoo.build_mech(dict(mech)).parameters()
        fname = rng.choice(names0)
        mrec['reduced'] = True
        mrec['fix'] = {fname: round(rng.uniform(0.3, 1.5), 3)}
    recipes = [mrec]
    errs = []
    for j in range(n_out):
        recipes.append({'h': 'e%d' % j, 'kind': 'error',
                        'cls': rng.choice(['G', 'M', 'CM', 'LN'])})
        errs.append('e%d' % j)
    info = model_info(mech['src'])
    grid = sorted(set(round(rng.uniform(0.2, 6), 1)
                      for _ in range(rng.randint(2, 5))))
    n_ids = rng.randint(1, 3)
    t = Table(recipes)
    m = t.get('m')
    n_mech = m.n_parameters()
    n_err = sum(zoo.n_error_params(r['cls']) for r in recipes[1:])
    n_ll = n_mech + n_err
    menu = rng.sample(
        ['loglik', 'logpost', 'hier', 'filterpost', 'pred', 'poppred',
         'redmech', 'rederror', 'redpop', 'rawpop'],
        rng.randint(2, 5))
    if rng.random() < 0.6 and 'logpost' not in menu:
        menu.append('logpost')
    if user_reduced and 'redmech' in menu:
        menu.remove('redmech')
    ll_handles = []

    def add_ll(h, fix=None):
        times, obs = [], []
        for _ in range(n_out):
            ts = sorted(rng.sample(grid, rng.randint(1, len(grid))))
            times.append(ts)
            obs.append(_vals(rng, len(ts), 0.1, 2.0))
        r = {'h': h, 'kind': 'loglik', 'mech': 'm', 'errors': errs,
             'times': times, 'obs': obs}
        if fix:
            r['fix'] = fix
        recipes.append(r)
        return h
    need_ll = any(k in menu for k in ('loglik', 'logpost'))
    fixed_ll = rng.random() < 0.3
    if need_ll:
        fix = None
        if fixed_ll:
            idx = rng.sample(range(n_ll), rng.randint(1, min(2, n_ll)))
            fix = [[i, round(rng.uniform(0.3, 1.5), 3)] for i in idx]
        add_ll('ll', fix)
        ll_handles.append('ll')
        if 'logpost' in menu:
            recipes.append({'h': 'lp', 'kind': 'logpost', 'll': 'll'})
    need_pop = any(k in menu for k in ('hier', 'poppred', 'redpop',
                                       'rawpop'))
    if need_pop:
        pop = set_n_ids_recipe(_no_tg(gen_pop_recipe(
            rng, n_dim_total=n_ll)), n_ids)
        recipes.append({'h': 'pop', 'kind': 'pop', 'pop': pop,
                        'n_ids': n_ids})
        if 'redpop' in menu:
            recipes.append({'h': 'rpop', 'kind': 'redpop', 'pop': 'pop',
                            'fix': [[rng.randint(0, 7),
                                     round(rng.uniform(0.3, 1.5), 3)]]})
    if 'hier' in menu:
        lls = []
        for i in range(n_ids):
            h = add_ll('ll_i%d' % i)
            recipes[-1]['id'] = 'id %d' % (i + 1)
            lls.append(h)
        hr = {'h': 'hl', 'kind': 'hier', 'lls': lls, 'pop': 'pop'}
        if 'redpop' in menu and rng.random() < 0.6:
            # hierarchical likelihood over a population model with a fixed
            # parameter (what the controller builds after fix_parameters)
            hr['pop'] = 'rpop'
        nc = zoo.pop_n_cov(pop)
        if nc:
            hr['covariates'] = [_vals(rng, nc, 0.0, 0.4)
                                for _ in range(n_ids)]
        recipes.append(hr)
        recipes.append({'h': 'hp', 'kind': 'hierpost', 'hl': 'hl'})
    if 'filterpost' in menu:
        fpop = set_n_ids_recipe(_no_tg(gen_pop_recipe(
            rng, n_dim_total=n_mech, allow_cov=False)), 3)
        n_sim = rng.randint(2, 3)
        fpop = set_n_ids_recipe(fpop, n_sim)
        recipes.append({'h': 'fpop', 'kind': 'pop', 'pop': fpop,
                        'n_ids': n_sim})
        ts = rng.sample([0.5, 1.0, 2.0, 3.0], rng.randint(1, 3))
        fdat = [[_vals(rng, 3, 0.3, 2.0) for _ in range(3)]
                for _ in range(3)]
        user_filter = None
        if rng.random() < 0.6 and n_out <= 3:
            user_filter = 'fflt'
            recipes.append({
                'h': 'fflt', 'kind': 'filter',
                # (a mixture filter with its two kernels needs an even
                # number of simulated individuals: 2 here, 3 never)
                'cls': rng.choice([f_ for f_ in sorted(FILTERS)
                                   if f_ != 'GM' or n_sim % 2 == 0]),
                'data': [[row[:len(ts)] for row in ind[:n_out]]
                         for ind in fdat],
                'shape': [n_out, len(ts)]})
            if rng.random() < 0.6:
                recipes[-1]['pre_eval'] = {
                    'q': rng.choice(['f_ll', 'f_s1']),
                    'x': [[_vals(rng, len(ts), 0.3, 2.0)
                           for _ in range(n_out)]
                          for _ in range(rng.randint(2, 4))]}
        recipes.append({
            'h': 'fp', 'kind': 'filterpost', 'mech': 'm', 'pop': 'fpop',
            'times': ts, 'n_sim': n_sim, 'sigma': rng.random() < 0.4,
            'log_scale': rng.random() < 0.3, 'filter': user_filter,
            'data': fdat})
        if rng.random() < 0.4:
            # a sibling built from the same user population model with
            # another number of simulated individuals
            recipes.append(dict(recipes[-1], h='fp2',
                                n_sim=5 - n_sim, sigma=True))
    if 'pred' in menu or 'poppred' in menu:
        recipes.append({'h': 'pred', 'kind': 'pred', 'mech': 'm',
                        'errors': errs})
        if 'poppred' in menu:
            recipes.append({'h': 'pp', 'kind': 'poppred', 'pred': 'pred',
                            'pop': 'pop'})
    if rng.random() < 0.3:
        n_t, n_o, n_i = rng.randint(1, 3), rng.randint(1, 2), rng.randint(2, 4)

        def fdata(log=False):
            d = [[[round(rng.uniform(0.3, 2.0), 3) for _ in range(n_t)]
                  for _ in range(n_o)] for _ in range(n_i)]
            if rng.random() < 0.4:
                d[rng.randrange(n_i)][rng.randrange(n_o)][
                    rng.randrange(n_t)] = float('nan')
            return d
        if rng.random() < 0.3 and n_t >= 2:
            k1 = rng.choice(sorted(FILTERS))
            k2 = rng.choice(sorted(FILTERS))
            d = fdata()
            recipes.append({'h': 'flt', 'kind': 'filter', 'cls': 'COMP',
                            'subs': [
                {'cls': k1, 'data': [[row[:1] for row in ind] for ind in d]},
                {'cls': k2, 'data': [[row[1:] for row in ind] for ind in d]}]})
        else:
            recipes.append({'h': 'flt', 'kind': 'filter',
                            'cls': rng.choice(sorted(FILTERS)),
                            'data': fdata()})
        recipes[-1]['shape'] = [n_o, n_t]
    if rng.random() < 0.35:
        has_route = any(o['op'] == 'set_administration'
                        for o in mech.get('config', []))
        cr = {'h': 'cpost', 'kind': 'ctrl_post', 'mech': 'm', 'errors': errs,
              'n_ids': rng.randint(1, 3),
              'times': [sorted(rng.sample(grid, rng.randint(1, len(grid))))
                        for _ in range(3)]}
        cr['values'] = [_vals(rng, len(grid), 0.2, 2.0) for _ in range(3)]
        if has_route and rng.random() < 0.7:
            cr['doses'] = [[[round(0.2 + 1.3 * j + rng.uniform(0, 0.5), 1),
                             round(rng.uniform(0.5, 3), 2),
                             rng.choice([0.01, 0.1])]
                            for j in range(rng.randint(1, 2))]
                           for _ in range(3)]
            if rng.random() < 0.5:
                # a control individual: measurements but no dose rows
                cr['doses'][rng.randrange(cr['n_ids'])] = []
            if rng.random() < 0.3:
                cr['dose_form'] = 'bolus'
        if rng.random() < 0.25:
            cr['keys'] = 'custom'
        if rng.random() < 0.4:
            cr['row_order'] = rng.choice(['reversed', 'interleaved'])
        if need_pop and rng.random() < 0.6 and zoo.pop_n_cov(pop) == 0:
            cpop = set_n_ids_recipe(pop, cr['n_ids'])
            recipes.append({'h': 'cpop', 'kind': 'pop', 'pop': cpop,
                            'n_ids': cr['n_ids']})
            cr['pop'] = 'cpop'
        else:
            cr['individual'] = 'p%d' % rng.randrange(cr['n_ids'])
        recipes.append(cr)
        if rng.random() < 0.5:
            recipes.append(dict(cr, h='cpred', kind='ctrl_pred'))
        if not cr.get('pop') and rng.random() < 0.7:
            # the controller itself, asked for the posteriors of different
            # individuals in any order (it sets each individual's regimen on
            # one shared model right before copying it)
            recipes.append(dict(cr, h='ctrl', kind='ctrl'))
    if 'redmech' in menu:
        recipes.append({'h': 'rm', 'kind': 'redmech', 'mech': 'm',
                        'fix': [[rng.randrange(n_mech),
                                 round(rng.uniform(0.3, 1.5), 3)]]})
    if 'rederror' in menu:
        cls = recipes[1]['cls']
        if zoo.n_error_params(cls) == 2:
            recipes.append({'h': 're', 'kind': 'rederror', 'error': 'e0',
                            'fix': [[rng.randint(0, 1), 0.4]]})
    # evaluation points per handle
    t = Table([dict(r, fix=None) if r['kind'] == 'loglik' else r
               for r in recipes])
    points = {}
    for r in list(recipes):
        if r['kind'] == 'filter':
            n_o, n_t = r['shape']
            points[r['h']] = [
                [[[round(rng.uniform(0.3, 2.0), 3) for _ in range(n_t)]
                  for _ in range(n_o)] for _ in range(rng.randint(2, 4))]
                for _ in range(3)]
            continue
        obj = call(t.get, r['h'])
        if is_exc(obj):
            # a composition chi refuses to build: leave it out
            recipes.remove(r)
            continue
        n = obj.get_n_parameters() if r['kind'] == 'ctrl' \
            else obj.n_parameters()
        points[r['h']] = [_vals(rng, n) for _ in range(3)]
        if r['kind'] in ('logpost', 'hierpost', 'ctrl_post', 'filterpost') \
                and rng.random() < 0.5:
            # one point outside the support of the (log-normal) prior: the
            # posterior returns -inf before any simulation
            j = n - 1 if r['kind'] != 'filterpost' else 0
            points[r['h']][1][j] = -abs(points[r['h']][1][j])
    if fixed_ll and 'lp' in [r['h'] for r in recipes]:
        # the posterior is built on the fixed likelihood
        t2 = Table(recipes)
        points['lp'] = [_vals(rng, t2.get('lp').n_parameters())
                        for _ in range(3)]
    aux = []
    nd_max = 16
    for _ in range(3):
        nt = rng.randint(1, 4)
        ts = sorted(set(round(rng.uniform(0.2, 6), 1) for _ in range(nt)))
        tu = list(ts)
        rng.shuffle(tu)
        aux.append({
            'times': ts, 'times_unsorted': tu, 'final_time': max(ts),
            'mo': _vals(rng, len(ts), 0.5, 3.0),
            'obs': _vals(rng, len(ts), 0.5, 3.0),
            'ms': [_vals(rng, 2, -1, 1) for _ in ts],
            'seed': rng.randint(0, 10 ** 6),
            'eta': [_vals(rng, nd_max) for _ in range(4)],
            'dlogp': [_vals(rng, nd_max, -1, 1) for _ in range(4)],
            'cov': [_vals(rng, 6, 0.0, 0.4) for _ in range(4)]})
    handles = [r['h'] for r in recipes]
    faults_on = rng.random() < 0.5
    par_on = rng.random() < (0.35 if tier == 'quick' else 0.3)
    mut_on = rng.random() < 0.5
    n_ops = rng.randint(3, 40 if tier == 'thorough' else 16)
    kinds = {r['h']: r['kind'] for r in recipes}
    weights = {h: rng.uniform(0.3, 2.0) for h in handles}
    if 'ctrl' in weights:
        # the order in which a controller is asked for individuals matters
        # only if it is asked several times
        weights['ctrl'] = 5.0
    ops = []
    dos = None
    for op in mech.get('config', []):
        if op['op'] == 'set_administration':
            dos = op
    fix_on = ('ll' in handles and 'lp' not in handles
              and rng.random() < 0.7)
    if fix_on and rng.random() < 0.4:
        # a mechanistic parameter fixed, sensitivities, ANY further fix
        # call, sensitivities again (the switch the first evaluation leaves
        # on must not change what the refresh after the second fix does)
        ops.append({'op': 'fix_ll', 'on': 'll', 'set': [
            [rng.randrange(n_mech), round(rng.uniform(0.3, 1.5), 3)]]})
        ops.append({'op': 'eval', 'on': 'll', 'q': 's1',
                    'point': rng.randint(0, 2), 'variant': 'array'})
        ops.append({'op': 'fix_ll', 'on': 'll', 'set': [
            [n_mech + rng.randint(0, 3), rng.choice(
                [None, round(rng.uniform(0.3, 1.5), 3)])]]})
        ops.append({'op': 'eval', 'on': 'll', 'q': rng.choice(
            ['s1', 's1', 'call', 'pw']), 'point': rng.randint(0, 2),
            'variant': 'array'})
    for _ in range(n_ops):
        r = rng.random()
        if r > 0.85 and fix_on:
            ops.append({'op': 'fix_ll', 'on': 'll', 'set': [
                [rng.randint(0, 30), None if rng.random() < 0.35
                 else round(rng.uniform(0.3, 1.5), 3)]
                for _ in range(rng.randint(1, 2))]})
            continue
        if r > 0.97 and mut_on:
            lls_ = [h_ for h_ in handles if kinds[h_] == 'loglik']
            if lls_:
                ops.append({'op': 'mutate_data', 'on': rng.choice(lls_),
                            'pos': rng.randint(0, 5),
                            'delta': round(rng.uniform(0.1, 1.0), 2)})
                continue
        if r < (0.12 if user_reduced else 0.06) and mut_on:
            h = rng.choice(['m'] + errs)
            op = {'op': 'mutate_user', 'on': h}
            if h == 'm':
                op['how'] = rng.choice(
                    ['regimen', 'outputs', 'rename', 'sens', 'admin'] + (
                        ['refix', 'refix', 'unfix'] if user_reduced else []))
                if user_reduced:
                    op['name'] = fname
                    op['value'] = round(rng.uniform(0.3, 1.5), 3)
                op['dose'] = round(rng.uniform(0.5, 3), 2)
                op['start'] = rng.choice([0, 0.5, 1.3])
                op['amount_var'] = dos['amount_var'] if dos else 'x'
            else:
                op['how'] = 'rename'
            ops.append(op)
            # ... and straight afterwards something built from that model is
            # looked at (it must have kept its own copy)
            deps_ = [h_ for h_ in handles
                     if kinds[h_] in ('loglik', 'logpost', 'pred', 'hier')
                     and h_ != h]
            if deps_ and rng.random() < 0.7:
                h2 = rng.choice(deps_)
                ops.append({'op': 'eval', 'on': h2, 'q': rng.choice(
                    [q_ for q_ in EVALS[kinds[h2]]
                     if q_ in ('names', 'call', 'pw', 'sample')]
                    or EVALS[kinds[h2]]),
                    'point': rng.randint(0, 2), 'variant': 'array'})
        elif r < 0.12 and par_on:
            cands = [h for h in handles
                     if kinds[h] in ('logpost', 'hierpost', 'filterpost',
                                     'ctrl_post')]
            if not cands:
                continue
            h = rng.choice(cands)
            npts = rng.randint(2, 8)
            op = {'op': 'par_eval', 'on': h,
                  'points': [rng.randint(0, 2) for _ in range(npts)],
                  'n_workers': rng.randint(1, 4),
                  'max_tasks': rng.randint(1, 5),
                  'batches': rng.choice([1, 1, 2]),
                  'parent_between': rng.random() < 0.5,
                  's1': rng.random() < 0.4,
                  'sched': rng.randint(0, 2 ** 31)}
            if rng.random() < 0.3:
                op['starve'] = rng.randint(1, op['n_workers'])
            rec_h = [r for r in recipes if r['h'] == h][0]
            if faults_on and kinds[h] in ('logpost', 'ctrl_post') \
                    and not rec_h.get('pop') and rng.random() < 0.5:
                # the solver fails for every evaluation of one of the points,
                # in whichever process it lands
                j = rng.choice(op['points'])
                op['magic'] = [points[h][j % len(points[h])][0]]
            ops.append(op)
        elif r < 0.17:
            ops.append({'op': 'perturb', 'how': rng.choice(
                ['seed', 'consume', 'normal']),
                'value': rng.randint(0, 10 ** 6)})
        else:
            h = rng.choices(handles, [weights[x] for x in handles])[0]
            q = rng.choice(EVALS[kinds[h]])
            op = {'op': 'eval', 'on': h, 'q': q,
                  'point': rng.randint(0, 2),
                  'variant': rng.choice(
                      ['array', 'array', 'array', 'list', 'list', 'readonly',
                       'readonly', 'view', 'view', 'float32'])}
            if faults_on and rng.random() < 0.15 and q in (
                    'call', 's1', 'pw', 'sim', 'sample'):
                op['fault'] = {'at_run': rng.choice([0, 0, 1]),
                               'kind': rng.choice(['fail', 'fail', 'nan'])}
            ops.append(op)
    for h_ in ('fp', 'fp2'):
        if h_ in handles and rng.random() < 0.4:
            # the first evaluation a filter posterior ever sees is in single
            # precision
            ops.insert(0, {'op': 'eval', 'on': h_, 'q': rng.choice(
                ['call', 's1']), 'point': rng.randint(0, 2),
                'variant': 'float32'})
    return {'property': PROP, 'recipes': recipes, 'ops': ops,
            'points': points, 'aux': aux,
            'profile': {'menu': sorted(menu), 'faults': faults_on,
                        'parallel': par_on, 'user_mutations': mut_on}}


def _no_tg(p):
    p = copy.deepcopy(p)
    if p['cls'] == 'TG':
        p['cls'] = 'LN'
    if p['cls'] == 'COMP':
        p['subs'] = [_no_tg(q) for q in p['subs']]
    if p['cls'] in ('COV', 'RED'):
        p['of'] = _no_tg(p['of'])
    return p


def recipe_tag(scenario):
    return '+'.join(sorted(set(r['kind'] for r in scenario['recipes'])))


def op_tag(op):
    if op['op'] == 'eval':
        return ':%s:%s' % (op['on'], op['q'])
    if op['op'] == 'mutate_user':
        return ':' + op.get('how', '')
    if op['op'] == 'par_eval':
        return ':%s:w%d:t%d:b%d%s' % (
            op['on'], op['n_workers'], op['max_tasks'], op.get('batches', 1),
            ':s1' if op.get('s1') else '')
    return ''


def simplify(sc):
    """Remove recipes no remaining op needs."""
    used = set()
    for op in sc['ops']:
        if 'on' in op:
            used.add(op['on'])
            used |= deps(sc['recipes'], op['on'])
    if any(r['h'] not in used for r in sc['recipes']):
        c = copy.deepcopy(sc)
        c['recipes'] = [r for r in c['recipes'] if r['h'] in used]
        yield c
