"""
C17 -- parameter counts, names, vector lengths and gradient lengths agree.

No reference model is needed: the invariants are agreements between numbers
the objects themselves publish, checked after every reconfiguration and after
every composition built on top of the reconfigured parts.
"""
import copy

import numpy as np

from .. import zoo
from ..kernel import Violation, call, is_exc, short

PROP = 'C17'
MUTATORS = {'set_n_ids', 'set_dim_names', 'set_parameter_names',
            'set_covariate_names', 'fix', 'wrap_reduced', 'wrap_composed',
            'set_population_parameters', 'mech_config'}
OBSERVERS = {'compose_hier', 'compose_filter', 'compose_poppred',
             'compose_ll', 'compose_controller'}
ALWAYS_OBSERVED = True
BUDGET = {'quick': {'runs': 6000, 'wall': 70},
          'thorough': {'runs': 300000, 'wall': 1500}}

RULE = ('seeded generation of population-model compositions (kinds cycled by '
        'run index so every pair of kinds meets) and reconfiguration '
        'histories, followed by compositions (hierarchical likelihood / '
        'posterior, filter posterior, predictive models, likelihoods over '
        'reconfigured mechanistic models); distinct = distinct SHA-256 of '
        '(composition shape, operation sequence); non-trivial = at least one '
        'reconfiguration before an invariant check')


def _in_support(rng_vals, n):
    return np.array([rng_vals[i % len(rng_vals)] for i in range(n)])


def fail(oracle, mismatch, detail, step):
    raise Violation(oracle, mismatch, detail, step)


_SHAPE_WORDS = ('broadcast', 'shape', 'reshape', 'unpack', 'length', 'size',
                'dimension', 'match', 'index', 'axis', 'out of bounds',
                'too many', 'not enough', 'operands', 'as many',
                'number of parameters', 'number of population')


def ok_exc(r):
    """
    Only shape / index / length errors are this property's business:
    NotImplementedError (unsupported composition) and errors about parameter
    *values* (e.g. numpy's 'scale < 0' for a sampled negative sigma) are not.
    """
    if not is_exc(r):
        return False
    if r.type == 'NotImplementedError':
        return True
    if r.type in ('IndexError', 'KeyError', 'TypeError', 'AttributeError'):
        return False
    if r.type == 'ValueError':
        msg = r.msg.lower()
        return not any(w in msg for w in _SHAPE_WORDS)
    return True


# ---------------------------------------------------------------------------
# invariants
# ---------------------------------------------------------------------------
def check_pop(pm, k, vals, cov_vals, step, label, world):
    n = call(lambda: int(pm.n_parameters()))
    names = call(lambda: list(pm.get_parameter_names()))
    if is_exc(n) or is_exc(names):
        fail('pop.count_names', 'raises', '%s: n_parameters %s names %s%s' % (
            label, short(n), short(names),
            (names.tb if is_exc(names) else n.tb if is_exc(n) else '')), step)
    if n != len(names):
        fail('pop.count_names', 'differs',
             '%s: n_parameters() = %d but %d names %s' % (
                 label, n, len(names), names), step)
    names2 = call(lambda: list(pm.get_parameter_names(exclude_dim_names=True)))
    if is_exc(names2) or len(names2) != n:
        fail('pop.count_names', 'differs_exclude_dim_names',
             '%s: n_parameters() = %d, names without dims %s' % (
                 label, n, short(names2)), step)
    nd = int(pm.n_dim())
    dn = call(lambda: list(pm.get_dim_names()))
    if is_exc(dn) or len(dn) != nd:
        fail('pop.dim_names', 'differs', '%s: n_dim %d, dim names %s' % (
            label, nd, short(dn)), step)
    nc = int(pm.n_covariates())
    cn = call(lambda: list(pm.get_covariate_names()))
    if is_exc(cn) or len(cn) != nc:
        fail('pop.covariate_names', 'differs',
             '%s: n_covariates %d, names %s' % (label, nc, short(cn)), step)
    nh = call(lambda: tuple(int(v) for v in pm.n_hierarchical_parameters(k)))
    if is_exc(nh):
        fail('pop.n_hierarchical', 'raises', '%s: %r' % (label, nh), step)
    n_b, n_t = nh
    if n_t != n:
        fail('pop.n_hierarchical', 'top_differs_from_n_parameters',
             '%s: n_hierarchical_parameters(%d) = %s, n_parameters() = %d' % (
                 label, k, nh, n), step)
    hd = int(pm.n_hierarchical_dim())
    if n_b != k * hd:
        fail('pop.n_hierarchical', 'bottom_differs',
             '%s: n_hierarchical_parameters(%d) = %s, n_hierarchical_dim %d'
             % (label, k, nh, hd), step)
    sd = call(lambda: pm.get_special_dims())
    if is_exc(sd):
        fail('pop.special_dims', 'raises', '%s: %r' % (label, sd), step)
    sdl, n_pool, n_het = sd
    if hd != nd - n_pool - n_het:
        fail('pop.special_dims', 'dim_count',
             '%s: n_dim %d pooled %d hetero %d hierarchical %d' % (
                 label, nd, n_pool, n_het, hd), step)
    tot_special = 0
    for e in sdl:
        if not (0 <= e[0] < e[1] <= nd and 0 <= e[2] <= e[3] <= n):
            fail('pop.special_dims', 'out_of_range',
                 '%s: entry %s with n_dim %d n_parameters %d' % (
                     label, list(e), nd, n), step)
        tot_special += e[1] - e[0]
    if tot_special != n_pool + n_het:
        fail('pop.special_dims', 'dim_count',
             '%s: entries %s cover %d dims, pooled %d hetero %d' % (
                 label, [list(e) for e in sdl], tot_special, n_pool, n_het),
             step)
    # a vector of the published length is accepted
    x = _in_support(vals, n)
    eta = np.array([[vals[(i * nd + j + 3) % len(vals)] for j in range(nd)]
                    for i in range(k)])
    kw = {}
    if nc:
        kw['covariates'] = np.array(
            [[cov_vals[(i + j) % len(cov_vals)] for j in range(nc)]
             for i in range(k)])
    obs = call(lambda: np.array(pm.compute_individual_parameters(
        x, eta, return_eta=True, **kw)))
    if ok_exc(obs):
        world.probe('not_implemented_skipped')
        return
    if is_exc(obs) or obs.shape != (k, nd):
        fail('pop.accepts_vector', 'individual_parameters',
             '%s: n_parameters %d, n_ids %d: %s%s' % (
                 label, n, k, short(obs), obs.tb if is_exc(obs) else ''), step)
    ll = call(lambda: pm.compute_log_likelihood(x, obs, **kw))
    if is_exc(ll) and not ok_exc(ll):
        fail('pop.accepts_vector', 'log_likelihood',
             '%s: vector of length %d rejected: %r\n%s' % (
                 label, n, ll, ll.tb), step)
    s1 = call(lambda: pm.compute_sensitivities(x, obs, **kw))
    if is_exc(s1):
        if not ok_exc(s1):
            fail('pop.gradient_length', 'raises', '%s: %r\n%s' % (
                label, s1, s1.tb), step)
    else:
        _, dpsi, dth = s1
        dth = np.asarray(dth)
        if np.shape(dpsi) != (k, nd) or dth.reshape(-1).shape != (n,):
            fail('pop.gradient_length', 'differs',
                 '%s: dpsi %s (want %s), dtheta %s (want %d)' % (
                     label, np.shape(dpsi), (k, nd), dth.shape, n), step)
    s1r = call(lambda: pm.compute_sensitivities(
        x, obs, reduce=True, dlogp_dpsi=np.ones((k, nd)), **kw))
    if is_exc(s1r):
        if not ok_exc(s1r):
            fail('pop.gradient_length', 'reduced_raises', '%s: %r\n%s' % (
                label, s1r, s1r.tb), step)
    else:
        g = np.asarray(s1r[1])
        if g.shape != (n_b + n_t,):
            fail('pop.gradient_length', 'reduced_differs',
                 '%s: reduced gradient %s, n_hierarchical_parameters %s' % (
                     label, g.shape, nh), step)
    kw2 = {}
    if nc:
        kw2['covariates'] = kw['covariates']
    smp = call(lambda: np.array(pm.sample(x, n_samples=k, seed=3, **kw2)))
    if is_exc(smp):
        if not ok_exc(smp):
            fail('pop.accepts_vector', 'sample', '%s: %r\n%s' % (
                label, smp, smp.tb), step)
    elif smp.shape != (k, nd):
        fail('pop.accepts_vector', 'sample_shape',
             '%s: sample shape %s, expected %s' % (label, smp.shape, (k, nd)),
             step)


def check_named(obj, step, label, n_of=None, names_of=None):
    n = call(lambda: int((n_of or obj.n_parameters)()))
    names = call(lambda: list((names_of or obj.get_parameter_names)()))
    if is_exc(n) or is_exc(names) or n != len(names):
        fail(label + '.count_names', 'differs',
             'n_parameters %s, names %s' % (short(n), short(names)), step)
    if label in ('controller', 'loglik', 'pred', 'logpost', 'ctrlpred') \
            and len(set(names)) != len(names):
        # (mechanistic names are distinct, error names carry their output)
        fail(label + '.unique_names', 'duplicates',
             'names are not distinct: %s' % names, step)
    again = call(lambda: list((names_of or obj.get_parameter_names)()))
    if is_exc(again) or again != names:
        fail(label + '.count_names', 'second_look',
             'names %s, asked again: %s' % (names, short(again)), step)
    return n, names


def check_ll(ll, vals, step, world, mech=None, errs=None):
    n, names = check_named(ll, step, 'loglik')
    if mech is not None:
        want = list(mech.parameters())
        outs = list(mech.outputs())
        for j, em in enumerate(errs):
            en = list(em.get_parameter_names())
            if len(outs) > 1:
                en = [outs[j] + ' ' + x for x in en]
            want += en
        if names != want:
            fail('loglik.name_order', 'differs',
                 'names %s, expected mechanistic then error names %s' % (
                     names, want), step)
    x = _in_support(vals, n)
    v = call(ll, x)
    if is_exc(v):
        fail('loglik.accepts_vector', 'raises',
             'vector of length %d: %r\n%s' % (n, v, v.tb), step)
    g = call(ll.evaluateS1, x)
    if is_exc(g):
        fail('loglik.gradient_length', 'raises', '%r\n%s' % (g, g.tb), step)
    if np.shape(g[1]) != (n,):
        fail('loglik.gradient_length', 'differs',
             'gradient %s, n_parameters %d' % (np.shape(g[1]), n), step)
    pw = call(ll.compute_pointwise_ll, x)
    if is_exc(pw) or len(pw) != int(np.sum(ll.n_observations())):
        fail('loglik.pointwise_length', 'differs',
             'pointwise %s, n_observations %s' % (
                 short(pw), ll.n_observations()), step)
    return n


def check_hier(h, vals, step, label, world, default_names=True):
    """h: HierarchicalLogLikelihood / Posterior / PopulationFilterLogPosterior"""
    n = call(lambda: int(h.n_parameters()))
    names = call(lambda: list(h.get_parameter_names()))
    if is_exc(n) or is_exc(names):
        fail(label + '.count_names', 'raises', '%s %s%s' % (
            short(n), short(names), names.tb if is_exc(names) else ''), step)
    if n != len(names):
        fail(label + '.count_names', 'differs',
             'n_parameters %d, %d names %s' % (n, len(names), names), step)
    ids = call(lambda: list(h.get_id()))
    if is_exc(ids) or len(ids) != n:
        fail(label + '.ids', 'length',
             'n_parameters %d, %s ids %s' % (
                 n, 'n/a' if is_exc(ids) else len(ids), short(ids)), step)
    n_top = call(lambda: int(h.n_parameters(exclude_bottom_level=True)))
    n_none = sum(1 for i in ids if i is None)
    if is_exc(n_top) or n_top != n_none:
        fail(label + '.ids', 'top_count',
             'n_parameters(exclude_bottom_level) %s, %d ids are None (%s)' % (
                 short(n_top), n_none, ids), step)
    top_names = call(lambda: list(h.get_parameter_names(
        exclude_bottom_level=True)))
    if is_exc(top_names) or len(top_names) != n_top:
        fail(label + '.count_names', 'top_names',
             'n_top %s, top names %s' % (n_top, short(top_names)), step)
    full = call(lambda: list(h.get_parameter_names(include_ids=True)))
    if is_exc(full) or len(full) != n:
        fail(label + '.count_names', 'with_ids', short(full), step)
    # both options together: the top-level entries of the ID-prefixed list
    # (top-level parameters carry no ID, so no prefix either)
    both = call(lambda: list(h.get_parameter_names(
        exclude_bottom_level=True, include_ids=True)))
    want_both = [nm for nm, i_ in zip(full, ids) if i_ is None]
    if is_exc(both) or both != want_both:
        fail(label + '.ids', 'both_options',
             'get_parameter_names(exclude_bottom_level=True, '
             'include_ids=True) gives %s; the entries of the ID-prefixed '
             'list whose ID is None are %s' % (short(both), want_both), step)
    if default_names and len(set(full)) != len(full):
        dup = sorted(set(x for x in full if full.count(x) > 1))
        fail(label + '.unique_names', 'duplicates',
             'ID-prefixed default names are not distinct: %s' % dup, step)
    return n, names, ids, n_top


def check_hier_ll(hl, pm, lls, vals, step, world, default_names):
    n, names, ids, n_top = check_hier(
        hl, vals, step, 'hier', world, default_names)
    k = len(lls)
    nh = call(lambda: tuple(int(v) for v in pm.n_hierarchical_parameters(k)))
    if is_exc(nh) or sum(nh) != n:
        fail('hier.n_hierarchical', 'sum_differs',
             'population model says %s, likelihood has %d' % (short(nh), n),
             step)
    n_bottom = nh[0]
    if any(i is None for i in ids[:n_bottom]) or any(
            i is not None for i in ids[n_bottom:]):
        fail('hier.ids', 'bottom_not_first',
             'n_bottom %d, ids %s' % (n_bottom, ids), step)
    if pm.n_parameters() != n_top:
        fail('hier.ids', 'top_count',
             'population n_parameters %d, n_top %d' % (
                 pm.n_parameters(), n_top), step)
    want_top = list(pm.get_parameter_names())
    if names[n_bottom:] != want_top:
        fail('hier.name_order', 'top_names',
             'top names %s, population model names %s' % (
                 names[n_bottom:], want_top), step)
    x = _in_support(vals, n)
    v = call(hl, x)
    if is_exc(v):
        if ok_exc(v):
            world.probe('not_implemented_skipped')
            return
        fail('hier.accepts_vector', 'raises',
             'vector of length %d: %r\n%s' % (n, v, v.tb), step)
    g = call(hl.evaluateS1, x)
    if is_exc(g):
        if ok_exc(g):
            world.probe('not_implemented_skipped')
            return
        fail('hier.gradient_length', 'raises', '%r\n%s' % (g, g.tb), step)
    if np.shape(g[1]) != (n,):
        fail('hier.gradient_length', 'differs',
             'gradient %s, n_parameters %d' % (np.shape(g[1]), n), step)
    world.probe('hier_evaluated')


# ---------------------------------------------------------------------------
# interpreter
# ---------------------------------------------------------------------------
def wrap_mech(mech, spec):
    """
    The user may hand over a ReducedMechanisticModel: one that never had a
    parameter fixed, or one whose only fixed parameter was released again.
    """
    import chi
    how = spec.get('mech_wrap')
    if not how:
        return mech
    red = chi.ReducedMechanisticModel(mech)
    if how == 'fix_release':
        nm = red.parameters()[0]
        red.fix_parameters({nm: 0.7})
        red.fix_parameters({nm: None})
    if how == 'fixed' and red.n_parameters() >= 2:
        # one parameter stays fixed (the user fixes another one on his own
        # object after he has handed it over, see user_fixes_more)
        red.fix_parameters({red.parameters()[-1]: 0.7})
    return red


def check_cov_names(pm, names, default_names, step, world):
    """
    Behavioural meaning of the covariate entries of a covariate population
    model over a Gaussian / log-normal model: with the same seed, changing
    entry k moves the samples of exactly one dimension, by a constant
    (location parameter) or not (scale parameter); the name of entry k must
    mention that dimension and, with default names, that parameter.
    """
    import chi
    inner = pm._population_model
    log = isinstance(inner, chi.LogNormalModel)
    if not (log or type(inner) is chi.GaussianModel):
        return
    n_dim, n_cov = pm.n_dim(), pm.n_covariates()
    n_pop = len(inner.get_parameter_names())
    n = pm.n_parameters()
    if n_pop != 2 * n_dim or n <= n_pop:
        return
    base = np.array([0.5] * n_dim + [0.3] * n_dim + [0.0] * (n - n_pop))
    cov = np.ones(n_cov)
    s0 = call(pm.sample, base, cov, 5, 11)
    if is_exc(s0):
        return
    s0 = np.log(s0) if log else np.asarray(s0)
    dims = list(pm.get_dim_names())
    kinds = inner.get_parameter_names(exclude_dim_names=True)
    for k in range(n_pop, n):
        p = base.copy()
        p[k] = 0.25
        s1 = call(pm.sample, p, cov, 5, 11)
        if is_exc(s1):
            return
        s1 = np.log(s1) if log else np.asarray(s1)
        moved = [d for d in range(n_dim)
                 if not np.allclose(s0[:, d], s1[:, d], rtol=1e-12, atol=0)]
        if not moved:
            # (a non-centred model samples its standardised variable: the
            # population parameters do not show in the samples)
            return
        if len(moved) != 1:
            fail('pop.name_order', 'entry_moves_several_dimensions',
                 'entry %d (%s) moves the samples of dimensions %s' % (
                     k, names[k], moved), step)
        d = moved[0]
        diff = s1[:, d] - s0[:, d]
        location = np.allclose(diff, diff[0], rtol=1e-9, atol=1e-12)
        want_kind = kinds[0 if location else n_dim]
        if dims[d] not in names[k] or (
                default_names and not names[k].startswith(want_kind)):
            fail('pop.name_order', 'name_does_not_describe_entry',
                 'entry %d is called %r but acts on the %s of dimension %r '
                 '(all names: %s)' % (k, names[k], want_kind, dims[d],
                                      names), step)
    world.probe('covariate_entry_names_verified')


def wrap_errors(errs, spec):
    """
    The user may hand over a ReducedErrorModel with one of its two
    parameters fixed (he keeps the object and goes on using it).
    """
    import chi
    if not spec.get('err_wrap'):
        return errs, None
    out, mine = [], None
    for e_, rec in zip(errs, spec['errors']):
        if mine is None and rec['cls'] == 'CM':
            e_ = chi.ReducedErrorModel(e_)
            e_.fix_parameters({e_.get_parameter_names()[0]: 0.3})
            mine = e_
        out.append(e_)
    return out, mine


def same_instance(errs, spec):
    """One error model OBJECT for every output (when they are of one class)."""
    if spec.get('same_error_instance') and len(errs) > 1 and len(set(
            e['cls'] for e in spec['errors'])) == 1:
        return [errs[0]] * len(errs)
    return errs


def toy_n(spec, n_mech):
    """One more parameter when the user keeps one fixed (free count as asked)."""
    return n_mech + 1 if spec.get('mech_wrap') == 'fixed' else n_mech


def user_fixes_more(mech, spec):
    """The user goes on configuring HIS model after the hand-over."""
    if spec.get('mech_wrap') != 'fixed' or mech.n_parameters() < 2:
        return False
    mech.fix_parameters({mech.parameters()[0]: 0.9})
    return True


def check_user_mech(mech, step, label):
    """A composite must leave the user's model consistent with itself."""
    n = call(lambda: int(mech.n_parameters()))
    names = call(lambda: list(mech.parameters()))
    if is_exc(n) or is_exc(names) or n != len(names):
        fail(label + '.user_model', 'count_names',
             'after the composition the user\'s mechanistic model reports '
             'n_parameters %s and names %s' % (short(n), short(names)), step)


def build_ll(spec, n_mech, table_id=None):
    """spec: {'toy': {...}} or {'mech': recipe}; returns (ll, mech, errs)."""
    import chi
    if 'toy' in spec:
        mech = zoo.toy_mech(toy_n(spec, n_mech), spec['toy']['n_outputs'])
    else:
        mech = zoo.build_mech(dict(spec['mech']))
    mech = wrap_mech(mech, spec)
    errs = same_instance([zoo.build_error(e) for e in spec['errors']], spec)
    times = [list(t) for t in spec['times']]
    obs = [list(o) for o in spec['obs']]
    ll = chi.LogLikelihood(mech, errs, obs, times)
    return ll, mech, errs


def n_err(spec):
    return sum(zoo.n_error_params(e['cls']) for e in spec['errors'])


def run(scenario, world):
    import chi
    recs = {r['h']: r for r in scenario['recipes']}
    pm = zoo.build_pop(recs['pm']['pop'])
    llspec = recs['ll']
    vals = scenario['vals']
    cov_vals = scenario['cov_vals']
    k = scenario.get('n_ids0', 1)
    triples = []
    prev = 'init'
    default_names = True
    user_mechs = []

    def bl(spec, n_mech):
        ll_, m_, e_ = build_ll(spec, n_mech)
        user_mechs.append(m_)
        return ll_, m_, e_
    kind = _pop_tag(recs['pm']['pop'])
    # a population model is told how many individuals it models before it
    # is used with them (as HierarchicalLogLikelihood and the controller do)
    r = call(pm.set_n_ids, k)
    if is_exc(r):
        fail('op.set_n_ids', 'raises', '%r\n%s' % (r, r.tb), -1)
    cur_k = k
    check_pop(pm, cur_k, vals, cov_vals, -1, 'initial', world)
    for step, op in enumerate(scenario['ops']):
        o = op['op']
        world.log('op', step, o)
        if o == 'set_n_ids':
            r = call(pm.set_n_ids, op['n'])
            if is_exc(r):
                fail('op.set_n_ids', 'raises', '%r\n%s' % (r, r.tb), step)
            cur_k = op['n']
        elif o == 'set_dim_names':
            names = op['names']
            if names is not None:
                nd = pm.n_dim()
                names = [names[i % len(names)] + str(i) for i in range(nd)]
                default_names = False
            r = call(pm.set_dim_names, names)
            if is_exc(r):
                fail('op.set_dim_names', 'raises', '%r\n%s' % (r, r.tb), step)
        elif o == 'set_parameter_names':
            names = op['names']
            if names is not None:
                n = pm.n_parameters()
                names = ['%s %d' % (names[i % len(names)], i)
                         for i in range(n)]
                default_names = False
            r = call(pm.set_parameter_names, names)
            if is_exc(r):
                fail('op.set_parameter_names', 'raises',
                     'n_parameters %d: %r\n%s' % (pm.n_parameters(), r, r.tb),
                     step)
        elif o == 'set_covariate_names':
            nc = pm.n_covariates()
            names = None if op['names'] is None else [
                op['names'][i % len(op['names'])] + str(i) for i in range(nc)]
            r = call(pm.set_covariate_names, names)
            if is_exc(r):
                fail('op.set_covariate_names', 'raises', '%r' % (r,), step)
        elif o == 'wrap_reduced':
            if not isinstance(pm, chi.ReducedPopulationModel):
                pm = chi.ReducedPopulationModel(pm)
        elif o == 'fix':
            if not isinstance(pm, chi.ReducedPopulationModel):
                continue
            cur = call(lambda: list(pm.get_population_model()
                                    .get_parameter_names()))
            if is_exc(cur) or not cur:
                continue
            d = {}
            for i, v in op['set']:
                d[cur[i % len(cur)]] = v
            r = call(pm.fix_parameters, d)
            if is_exc(r):
                fail('op.fix', 'raises', 'fix(%s): %r\n%s' % (d, r, r.tb),
                     step)
            if len(set(cur)) != len(cur):
                world.probe('fix_with_duplicate_names')
        elif o == 'set_population_parameters':
            if not isinstance(pm, chi.CovariatePopulationModel):
                continue
            n_pop = len(pm._population_model.get_parameter_names()) \
                // pm.n_dim()
            pairs = [[p % n_pop, d % pm.n_dim()] for p, d in op['pairs']]
            r = call(pm.set_population_parameters, pairs)
            if is_exc(r):
                fail('op.set_population_parameters', 'raises',
                     'pairs %s: %r\n%s' % (pairs, r, r.tb), step)
            if len(pairs) > 1:
                world.probe('multi_pair_selection')
            # the covariate model on its own (a public class): after the
            # same selection, and after a selection it REJECTS (an empty one
            # raises), its count, names and accepted vector still agree
            cm = chi.LinearCovariateModel(n_cov=max(1, pm.n_covariates()))
            r = call(cm.set_population_parameters, pairs)
            if not is_exc(r):
                for bad in ([], [[0, 0], [0]]):
                    rb = call(cm.set_population_parameters, bad)
                    if not is_exc(rb):
                        break
                ncm = call(lambda: int(cm.n_parameters()))
                nm_ = call(lambda: list(cm.get_parameter_names()))
                if is_exc(ncm) or is_exc(nm_) or ncm != len(nm_):
                    fail('covariate_model.count_names', 'after_rejected_call',
                         'selection %s accepted, then an invalid selection '
                         'rejected: n_parameters %s, names %s' % (
                             pairs, short(ncm), short(nm_)), step)
                v_ = call(cm.compute_population_parameters,
                          np.full(ncm, 0.1), np.full((2, pm.n_dim()), 0.5),
                          np.ones((2, cm.n_covariates())))
                if is_exc(v_) and not ok_exc(v_):
                    fail('covariate_model.accepts_vector', 'raises',
                         'vector of length n_parameters() = %d: %r\n%s' % (
                             ncm, v_, v_.tb), step)
                world.probe('bare_covariate_model_checked')
            # the name of a covariate entry describes the population
            # parameter that entry acts on
            names = list(pm.get_parameter_names())
            check_cov_names(pm, names, default_names, step, world)
            r = call(pm.set_dim_names, list(pm.get_dim_names()))
            if not is_exc(r) and list(pm.get_parameter_names()) != names:
                fail('pop.name_order', 'restating_dim_names_moves_names',
                     'pairs %s: %s before, %s after set_dim_names('
                     'get_dim_names())' % (
                         pairs, names, pm.get_parameter_names()), step)
        elif o == 'wrap_composed':
            subs = [zoo.build_pop(r) for r in op['with']]
            for s in subs:
                if _has_hetero_obj(s):
                    s.set_n_ids(cur_k)
            order = [pm] + subs if op.get('front', True) else subs + [pm]
            r = call(chi.ComposedPopulationModel, order)
            if is_exc(r):
                if r.type in ('ValueError', 'TypeError') and (
                        'same number' in r.msg or 'instance' in r.msg):
                    continue
                fail('op.wrap_composed', 'raises', '%r\n%s' % (r, r.tb), step)
            pm = r
            r = call(pm.set_n_ids, cur_k)
            if is_exc(r):
                fail('op.set_n_ids', 'raises', '%r\n%s' % (r, r.tb), step)
        elif o == 'compose_hier':
            kk = op['n_ids']
            n_mech = pm.n_dim() - n_err(llspec)
            if n_mech < 1:
                continue
            if 'toy' not in llspec:
                ll0, mech, errs = bl(llspec, n_mech)
                if ll0.n_parameters() != pm.n_dim():
                    continue
            lls = []
            labels = op.get('labels')
            for i in range(kk):
                ll, mech, errs = bl(llspec, n_mech)
                if labels is None:
                    ll.set_id('ind %d' % (i + 1))
                elif labels == 'mixed' and i == 0:
                    # the user's label happens to look like a default one
                    ll.set_id('Log-likelihood 2')
                lls.append(ll)
            kw = {}
            if pm.n_covariates():
                kw['covariates'] = np.array(
                    [[cov_vals[(i + j) % len(cov_vals)]
                      for j in range(pm.n_covariates())] for i in range(kk)])
            if labels == 'reuse' and kk >= 2:
                # likelihoods labelled by an earlier hierarchical likelihood
                # are used again next to a new, unlabelled one
                call(chi.HierarchicalLogLikelihood, lls, copy.deepcopy(pm),
                     **kw)
                ll, mech, errs = bl(llspec, n_mech)
                lls = lls[1:] + [ll]
            hl = call(chi.HierarchicalLogLikelihood, lls, pm, **kw)
            if is_exc(hl):
                if labels in ('mixed', 'reuse') and hl.type == 'ValueError' \
                        and 'unique' in hl.msg:
                    # refusing colliding labels is fine (giving two
                    # individuals one label is not)
                    world.probe('colliding_labels_refused')
                    # (the refused constructor may already have told the
                    # population model the new number of individuals)
                    call(pm.set_n_ids, cur_k)
                    continue
                if ok_exc(hl):
                    call(pm.set_n_ids, cur_k)
                    continue
                fail('op.compose_hier', 'raises', '%r\n%s' % (hl, hl.tb),
                     step)
            cur_k = kk
            check_hier_ll(hl, pm, lls, vals, step, world, default_names)
            n_top = hl.n_parameters(exclude_bottom_level=True)
            if n_top < 1:
                continue
            hp = call(chi.HierarchicalLogPosterior, hl, zoo.build_prior(
                {'n': n_top, 'kind': 'lognormal'}))
            if is_exc(hp):
                fail('op.compose_hier', 'posterior_raises', '%r\n%s' % (
                    hp, hp.tb), step)
            n, _, _, _ = check_hier(hp, vals, step, 'hierpost', world,
                                    default_names)
            x_in = _in_support(vals, n)
            x_out = np.array(x_in, dtype=float)
            x_out[-1] = -abs(x_out[-1])      # outside the log-normal prior
            for label_, xx in (('inside', x_in), ('outside', x_out)):
                g = call(hp.evaluateS1, xx)
                if is_exc(g):
                    if not ok_exc(g):
                        fail('hierpost.gradient_length', 'raises',
                             '%s the prior support: %r\n%s' % (
                                 label_, g, g.tb), step)
                    break
                if np.shape(g[1]) != (n,):
                    fail('hierpost.gradient_length', 'differs',
                         '%s the prior support: gradient %s, n_parameters '
                         '%d (score %s)' % (label_, np.shape(g[1]), n,
                                            short(g[0])), step)
            init = call(hp.sample_initial_parameters, 2, 5)
            if is_exc(init):
                if not ok_exc(init):
                    fail('hierpost.initial_parameters', 'raises',
                         '%r\n%s' % (init, init.tb), step)
            elif np.shape(init) != (2, n):
                fail('hierpost.initial_parameters', 'shape',
                     'shape %s, n_parameters %d' % (np.shape(init), n), step)
        elif o == 'compose_ll':
            n_mech = max(1, pm.n_dim() - n_err(llspec))
            ll, mech, errs = bl(llspec, n_mech)
            check_ll(ll, vals, step, world, mech, errs)
            if llspec.get('err_wrap') and not llspec.get(
                    'same_error_instance'):
                # a user-owned reduced error model: composites made from it
                # keep their own configuration when the user fixes its other
                # parameter afterwards
                errs_w, mine = wrap_errors(
                    [zoo.build_error(e) for e in llspec['errors']], llspec)
                if mine is not None:
                    times_ = [list(t) for t in llspec['times']]
                    obs_ = [list(o_) for o_ in llspec['obs']]
                    llw = chi.LogLikelihood(mech.copy() if hasattr(
                        mech, 'copy') else mech, errs_w, obs_, times_)
                    predw = chi.PredictiveModel(mech.copy() if hasattr(
                        mech, 'copy') else mech, errs_w)
                    before = (llw.n_parameters(),
                              list(llw.get_parameter_names()))
                    r = call(mine.fix_parameters,
                             {mine.get_parameter_names()[0]: 0.2})
                    if not is_exc(r):
                        n_ = check_ll(llw, vals, step, world)
                        if (n_, list(llw.get_parameter_names())) != before:
                            fail('loglik.count_names',
                                 'follows_user_error_model',
                                 'before %s, after the user fixed another '
                                 'parameter of his reduced error model %s'
                                 % (before, (n_, llw.get_parameter_names())),
                                 step)
                        n_, _ = check_named(predw, step, 'pred')
                        s_ = call(predw.sample, _in_support(vals, n_),
                                  [1.0, 2.0], 2, 1)
                        if is_exc(s_) and not ok_exc(s_):
                            fail('pred.accepts_vector', 'raises',
                                 'after the user fixed another parameter of '
                                 'his reduced error model: %r\n%s' % (
                                     s_, s_.tb), step)
                        world.probe('user_error_model_fixed_after_hand_over')
            if llspec.get('mech_wrap') == 'fixed':
                # composites made before the user changes his own model ...
                before = (ll.n_parameters(), ll.get_parameter_names())
                pred0 = chi.PredictiveModel(mech, errs)
                if user_fixes_more(mech, llspec):
                    # ... keep their own, self-consistent configuration
                    n_ = check_ll(ll, vals, step, world)
                    if (n_, ll.get_parameter_names()) != before:
                        fail('loglik.count_names', 'follows_user_model',
                             'before %s, after the user fixed a parameter '
                             'of his own model %s' % (before, (
                                 n_, ll.get_parameter_names())), step)
                    n_, _ = check_named(pred0, step, 'pred')
                    s_ = call(pred0.sample, _in_support(vals, n_),
                              [1.0, 2.0], 2, 1)
                    if is_exc(s_) and not ok_exc(s_):
                        fail('pred.accepts_vector', 'raises',
                             'after the user fixed a parameter of his own '
                             'model: %r\n%s' % (s_, s_.tb), step)
                    world.probe('user_model_fixed_after_hand_over')
                    # (the rest of the step uses a fresh pair)
                    ll, mech, errs = bl(llspec, n_mech)
            # reconfiguration of the likelihood itself: fix, check, release
            names_ll = ll.get_parameter_names()
            for pos in op.get('fix', []):
                nm = names_ll[pos % len(names_ll)]
                r = call(ll.fix_parameters, {nm: vals[pos % len(vals)]})
                if is_exc(r):
                    fail('op.fix_likelihood', 'raises', '%r\n%s' % (r, r.tb),
                         step)
                if ll.n_parameters() >= 1:
                    check_ll(ll, vals, step, world)
                world.probe('likelihood_fixed_and_rechecked')
            fixed_now = sorted(set(pos % len(names_ll)
                                   for pos in op.get('fix', [])))
            free_now = [i for i in range(len(names_ll))
                        if i not in fixed_now]
            if op.get('swap') and fixed_now and free_now:
                # one call that releases one parameter and fixes another:
                # the number of free parameters stays, the names must not
                a_, b_ = fixed_now[0], free_now[-1]
                r = call(ll.fix_parameters, {
                    names_ll[a_]: None,
                    names_ll[b_]: vals[b_ % len(vals)]})
                if is_exc(r):
                    fail('op.fix_likelihood', 'swap_raises', '%r\n%s' % (
                        r, r.tb), step)
                fixed_now = sorted(set(fixed_now) - {a_} | {b_})
                want_ = [nm for i, nm in enumerate(names_ll)
                         if i not in fixed_now]
                if ll.n_parameters() >= 1:
                    check_ll(ll, vals, step, world)
                if list(ll.get_parameter_names()) != want_:
                    fail('loglik.name_order', 'after_swap',
                         'names %s, expected %s' % (
                             ll.get_parameter_names(), want_), step)
                world.probe('likelihood_fix_swapped')
            if op.get('fix') and op.get('release', True):
                r = call(ll.fix_parameters, dict(
                    (names_ll[pos], None) for pos in fixed_now))
                if is_exc(r):
                    fail('op.fix_likelihood', 'release_raises', '%r\n%s' % (
                        r, r.tb), step)
                check_ll(ll, vals, step, world, mech, errs)
            import pints
            if ll.n_parameters() >= 1:
                lp = chi.LogPosterior(ll, zoo.build_prior(
                    {'n': ll.n_parameters(), 'kind': 'lognormal'}))
                check_named(lp, step, 'logpost')
            outs_ = list(mech.outputs())
            if len(outs_) >= 2 and not llspec.get('mech_wrap') \
                    and 'toy' not in llspec:
                # the `outputs` argument maps the error models to the model
                # outputs, in the order given (here: reversed)
                perm = outs_[::-1]
                errs_p = [copy.deepcopy(e_) for e_ in errs[::-1]]
                pred_p = call(chi.PredictiveModel, mech.copy(), errs_p,
                              outputs=perm)
                if is_exc(pred_p):
                    fail('op.compose_pred_outputs', 'raises', '%r\n%s' % (
                        pred_p, pred_p.tb), step)
                want = list(mech.parameters())
                for o_, e_ in zip(perm, errs[::-1]):
                    want += [o_ + ' ' + x for x in e_.get_parameter_names()]
                got = (list(pred_p.get_output_names()),
                       list(pred_p.get_parameter_names()))
                if got != (perm, want):
                    fail('pred.name_order', 'outputs_argument',
                         'PredictiveModel(..., outputs=%s): outputs %s, '
                         'names %s; expected %s' % (perm, got[0], got[1],
                                                    want), step)
                world.probe('outputs_argument_reordered')
            pred = chi.PredictiveModel(mech, errs)
            n, _ = check_named(pred, step, 'pred')
            s = call(pred.sample, _in_support(vals, n), [1.0, 2.0], 2, 1)
            if is_exc(s) and not ok_exc(s):
                fail('pred.accepts_vector', 'raises', '%r\n%s' % (s, s.tb),
                     step)
            names_p = pred.get_parameter_names()
            for pos in op.get('fix', []):
                r = call(pred.fix_parameters, {
                    names_p[pos % len(names_p)]: vals[pos % len(vals)]})
                if is_exc(r):
                    fail('op.fix_predictive', 'raises', '%r\n%s' % (
                        r, r.tb), step)
                n, _ = check_named(pred, step, 'pred')
                if n >= 1:
                    s = call(pred.sample, _in_support(vals, n), [1.0, 2.0],
                             2, 1)
                    if is_exc(s) and not ok_exc(s):
                        fail('pred.accepts_vector', 'raises_after_fix',
                             'vector of length %d: %r\n%s' % (n, s, s.tb),
                             step)
        elif o == 'compose_poppred':
            n_mech = pm.n_dim() - n_err(llspec)
            if n_mech < 1:
                continue
            _, mech, errs = bl(llspec, n_mech)
            pred = chi.PredictiveModel(mech, errs)
            if pred.n_parameters() != pm.n_dim():
                continue
            pp = call(chi.PopulationPredictiveModel, pred, pm)
            if is_exc(pp):
                fail('op.compose_poppred', 'raises', '%r' % (pp,), step)
            n, _ = check_named(pp, step, 'poppred')
            kw = {}
            if pm.n_covariates():
                kw['covariates'] = [cov_vals[j % len(cov_vals)]
                                    for j in range(pm.n_covariates())]
            s = call(pp.sample, _in_support(vals, n), [1.0, 2.0], cur_k, 1,
                     **kw)
            if is_exc(s) and not ok_exc(s):
                fail('poppred.accepts_vector', 'raises',
                     'n_samples = n_ids = %d: %r\n%s' % (cur_k, s, s.tb),
                     step)
        elif o == 'compose_controller':
            import pandas as pd
            kk = op['n_ids']
            n_mech = pm.n_dim() - n_err(llspec)
            if n_mech < 1:
                continue
            if 'toy' in llspec:
                mech = zoo.toy_mech(toy_n(llspec, n_mech),
                                    llspec['toy']['n_outputs'])
            else:
                mech = zoo.build_mech(dict(llspec['mech']))
            mech = wrap_mech(mech, llspec)
            user_mechs.append(mech)
            errs = [zoo.build_error(e) for e in llspec['errors']]
            if any(e['cls'] is None for e in llspec['errors']):
                continue
            errs = same_instance(errs, llspec)
            ctrl = call(chi.ProblemModellingController, mech, errs)
            if is_exc(ctrl):
                fail('op.compose_controller', 'raises', '%r\n%s' % (
                    ctrl, ctrl.tb), step)
            n0, names0 = check_named(
                ctrl, step, 'controller', n_of=ctrl.get_n_parameters,
                names_of=ctrl.get_parameter_names)
            if n0 != pm.n_dim():
                continue
            rows = []
            outs = mech.outputs()
            for i in range(kk):
                for j, o_ in enumerate(outs):
                    for t_, v in zip(llspec['times'][j], llspec['obs'][j]):
                        rows.append({'ID': 'id%d' % i, 'Time': t_,
                                     'Observable': o_, 'Value': v})
                for c in range(pm.n_covariates()):
                    rows.append({'ID': 'id%d' % i, 'Time': np.nan,
                                 'Observable': 'cov%d' % c,
                                 'Value': cov_vals[(i + c) % len(cov_vals)]})
            if op.get('ghost'):
                # one more individual without a single usable measurement
                # (a NaN value): it still counts as an individual
                rows.append({'ID': 'id%d' % kk, 'Time': 1.0,
                             'Observable': outs[0], 'Value': np.nan})
                for c in range(pm.n_covariates()):
                    rows.append({'ID': 'id%d' % kk, 'Time': np.nan,
                                 'Observable': 'cov%d' % c,
                                 'Value': cov_vals[c % len(cov_vals)]})
                kk += 1
            df = pd.DataFrame(rows)
            r = call(ctrl.set_population_model, pm)
            if is_exc(r):
                if ok_exc(r):
                    continue
                fail('op.compose_controller', 'set_population_model',
                     '%r\n%s' % (r, r.tb), step)
            kw = {'dose_key': None, 'dose_duration_key': None}
            if pm.n_covariates():
                kw['covariate_dict'] = dict(
                    (nm, 'cov%d' % c)
                    for c, nm in enumerate(pm.get_covariate_names()))
            r = call(ctrl.set_data, df, **kw)
            if is_exc(r):
                if ok_exc(r) or r.type in ('ValueError',) and (
                        'covariate' in r.msg.lower()):
                    world.probe('controller_data_rejected')
                    continue
                fail('op.compose_controller', 'set_data', '%r\n%s' % (
                    r, r.tb), step)
            cur_k = kk
            n1, names1 = check_named(
                ctrl, step, 'controller', n_of=ctrl.get_n_parameters,
                names_of=ctrl.get_parameter_names)
            # (set_data documents that it releases fixed population
            # parameters: the controller works on the wrapped model)
            eff = pm.get_population_model() if isinstance(
                pm, chi.ReducedPopulationModel) else pm
            if n1 != eff.n_parameters() or names1 != list(
                    eff.get_parameter_names()):
                fail('controller.name_order', 'population',
                     'controller %s %s, population model %s %s' % (
                         n1, names1, eff.n_parameters(),
                         eff.get_parameter_names()), step)
            nb = call(lambda: int(ctrl.get_n_parameters(
                exclude_pop_model=True)))
            nmb = call(lambda: list(ctrl.get_parameter_names(
                exclude_pop_model=True)))
            if is_exc(nb) or is_exc(nmb) or nb != len(nmb) or nb != n0:
                fail('controller.count_names', 'bottom',
                     '%s names %s (model has %d)' % (
                         short(nb), short(nmb), n0), step)
            if n1 >= 1:
                r = call(ctrl.set_log_prior, zoo.build_prior(
                    {'n': n1, 'kind': 'lognormal'}))
                if is_exc(r):
                    fail('controller.prior_dimension', 'rejected',
                         'prior of dimension get_n_parameters() = %d: %r' % (
                             n1, r), step)
                post = call(ctrl.get_log_posterior)
                if is_exc(post):
                    if not ok_exc(post):
                        fail('controller.posterior', 'raises', '%r\n%s' % (
                            post, post.tb), step)
                else:
                    n, names, ids, n_top = check_hier(
                        post, vals, step, 'ctrlpost', world, False)
                    if n_top != n1:
                        fail('controller.count_names', 'top',
                             'posterior top-level %d, controller %d' % (
                                 n_top, n1), step)
                    v = call(post, _in_support(vals, n))
                    if is_exc(v) and not ok_exc(v):
                        fail('ctrlpost.accepts_vector', 'raises',
                             'vector of length %d: %r\n%s' % (n, v, v.tb),
                             step)
                    world.probe('controller_posterior_checked')
            pmod = call(ctrl.get_predictive_model)
            if is_exc(pmod):
                fail('controller.predictive_model', 'raises', '%r\n%s' % (
                    pmod, pmod.tb), step)
            check_named(pmod, step, 'ctrlpred')
            # set_data documents that it resets fixed population parameters:
            # it drops a reduced wrapper and works on the wrapped model, which
            # is therefore what the history continues with
            pm = eff
        elif o == 'compose_filter':
            ns = op['n_samples']
            n_mech = pm.n_dim()
            n_out = llspec['toy']['n_outputs'] if 'toy' in llspec else None
            if 'toy' in llspec:
                mech = zoo.toy_mech(toy_n(llspec, n_mech), n_out)
            else:
                mech = zoo.build_mech(dict(llspec['mech']))
                n_out = mech.n_outputs()
            mech = wrap_mech(mech, llspec)
            if mech.n_parameters() != n_mech:
                continue
            user_mechs.append(mech)
            times = op['times']
            data = np.array(op['data'])[:, :n_out, :len(times)]
            if data.shape[1] != n_out:
                continue
            flt = chi.GaussianFilter(data)
            pmc = copy.deepcopy(pm)
            n_top = pmc.n_parameters() + (0 if op.get('sigma') else n_out)
            kw = {}
            if pm.n_covariates():
                kw['covariates'] = [cov_vals[j % len(cov_vals)]
                                    for j in range(pm.n_covariates())]
            if _has_hetero_obj(pmc):
                r = call(pmc.set_n_ids, ns)
                if is_exc(r):
                    fail('op.set_n_ids', 'raises', '%r\n%s' % (r, r.tb),
                         step)
                n_top = pmc.n_parameters() + (0 if op.get('sigma') else n_out)
            if n_top < 1:
                continue
            fp = call(
                chi.PopulationFilterLogPosterior, flt, times, mech, pmc,
                zoo.build_prior({'n': n_top, 'kind': 'lognormal'}),
                sigma=([0.3] * n_out if op.get('sigma') else None),
                n_samples=ns, **kw)
            if is_exc(fp):
                if ok_exc(fp):
                    continue
                fail('op.compose_filter', 'raises', '%r\n%s' % (fp, fp.tb),
                     step)
            n, names, ids, nt = check_hier(
                fp, vals, step, 'filterpost', world, default_names)
            if any(i is not None for i in ids[:nt]) or any(
                    i is None for i in ids[nt:]):
                fail('filterpost.ids', 'top_not_first',
                     'n_top %d ids %s' % (nt, ids), step)
            x = _in_support(vals, n)
            v = call(fp, x)
            if is_exc(v):
                if not ok_exc(v):
                    fail('filterpost.accepts_vector', 'raises',
                         'vector of length %d: %r\n%s' % (n, v, v.tb), step)
            else:
                g = call(fp.evaluateS1, x)
                if is_exc(g):
                    if not ok_exc(g):
                        fail('filterpost.gradient_length', 'raises',
                             '%r\n%s' % (g, g.tb), step)
                elif np.shape(g[1]) != (n,):
                    fail('filterpost.gradient_length', 'differs',
                         'gradient %s n_parameters %d' % (np.shape(g[1]), n),
                         step)
                init = call(fp.sample_initial_parameters, 2, 5)
                if is_exc(init):
                    if not ok_exc(init):
                        fail('filterpost.initial_parameters', 'raises',
                             '%r\n%s' % (init, init.tb), step)
                elif np.shape(init) != (2, n):
                    fail('filterpost.initial_parameters', 'shape',
                         'shape %s n_parameters %d' % (np.shape(init), n),
                         step)
                world.probe('filter_evaluated')
        else:
            raise ValueError('unknown op ' + o)
        triples.append((prev, o, kind))
        prev = o
        check_pop(pm, cur_k, vals, cov_vals, step, 'after ' + o, world)
        for m_ in user_mechs:
            check_user_mech(m_, step, o)
        del user_mechs[:]
    return {'triples': triples}


def _has_hetero(rec):
    if rec['cls'] == 'H':
        return True
    if rec['cls'] in ('COV', 'RED'):
        return _has_hetero(rec['of'])
    if rec['cls'] == 'COMP':
        return any(_has_hetero(r) for r in rec['subs'])
    return False


def _has_hetero_obj(pm):
    import chi
    if isinstance(pm, chi.HeterogeneousModel):
        return True
    if isinstance(pm, chi.ReducedPopulationModel):
        return _has_hetero_obj(pm.get_population_model())
    if isinstance(pm, chi.ComposedPopulationModel):
        return any(_has_hetero_obj(s) for s in pm.get_population_models())
    return False


def _pop_tag(p):
    if p['cls'] == 'COMP':
        return 'COMP(' + ','.join(_pop_tag(x) for x in p['subs']) + ')'
    if p['cls'] in ('COV', 'RED'):
        return p['cls'] + '(' + _pop_tag(p['of']) + ')'
    return p['cls'] + str(p.get('n_dim', 1)) + (
        'n' if p.get('centered') is False else '')


# ---------------------------------------------------------------------------
# generator
# ---------------------------------------------------------------------------
LEAVES = [
    {'cls': 'G'}, {'cls': 'G', 'centered': False}, {'cls': 'LN'},
    {'cls': 'LN', 'centered': False}, {'cls': 'TG'}, {'cls': 'P'},
    {'cls': 'H'},
    {'cls': 'COV', 'of': {'cls': 'G'}}, {'cls': 'COV', 'of': {'cls': 'LN'}},
    {'cls': 'COV', 'of': {'cls': 'P'}}, {'cls': 'COV', 'of': {'cls': 'H'}},
    {'cls': 'COV', 'of': {'cls': 'G', 'centered': False}},
    {'cls': 'RED', 'of': {'cls': 'G'}}, {'cls': 'RED', 'of': {'cls': 'P'}},
    {'cls': 'RED', 'of': {'cls': 'H'}},
]


def gen_leaf(rng, base, n_ids):
    rec = copy.deepcopy(base)
    nd = rng.choice([1, 1, 2, 3])
    tgt = rec['of'] if 'of' in rec else rec
    tgt['n_dim'] = nd
    if tgt['cls'] == 'H':
        tgt['n_ids'] = n_ids
    if rec['cls'] == 'COV':
        rec['n_cov'] = rng.choice([1, 2])
        if rng.random() < 0.5 and tgt['cls'] in ('G', 'LN'):
            pairs = [[p, d] for p in range(2) for d in range(nd)]
            rec['pop_params'] = [
                rng.choice(pairs) for _ in range(rng.randint(1, 4))]
    if rec['cls'] == 'RED' and rng.random() < 0.5:
        rec['fix_first'] = True
    return rec


AVOIDED = [{'cls': 'COV', 'of': {'cls': 'P'}},
           {'cls': 'COV', 'of': {'cls': 'H'}}]


def generate(rng, index, tier):
    sc = _generate(rng, index, tier)
    if sc['profile']['avoid_known']:
        # keep away from the open known findings in most runs (a run that
        # trips one stops exploring); the other runs still go there
        sc['ops'] = [op for op in sc['ops'] if not (
            op['op'] == 'set_dim_names' and op['names'] is None)]
        if trig_filter_reduced_special(sc):
            sc['ops'] = [op for op in sc['ops']
                         if op['op'] != 'compose_filter']
        while trig_nested_composed(sc):
            last = max(i for i, op in enumerate(sc['ops'])
                       if op['op'] == 'wrap_composed')
            del sc['ops'][last]
        n_cov_models = sum(1 for p in _pops_in(sc) for q in _walk(p)
                           if q['cls'] == 'COV')
        if n_cov_models > 1:
            sc['ops'] = [op for op in sc['ops'] if not (
                op['op'] == 'set_parameter_names' and op['names'] is None)]
    return sc


def _generate(rng, index, tier):
    n_ids0 = rng.randint(1, 4)
    avoid = rng.random() < 0.8
    leaves = [l for l in LEAVES if not (avoid and l in AVOIDED)]
    nl = len(leaves)
    a = leaves[index % nl]
    b = leaves[(index // nl) % nl]
    shape = rng.random()
    if shape < 0.25:
        pop = gen_leaf(rng, a, n_ids0)
    else:
        subs = [gen_leaf(rng, a, n_ids0), gen_leaf(rng, b, n_ids0)]
        for _ in range(rng.choice([0, 0, 1, 2])):
            subs.append(gen_leaf(rng, rng.choice(leaves), n_ids0))
        if rng.random() < 0.5:
            rng.shuffle(subs)
        pop = {'cls': 'COMP', 'subs': subs}
        if rng.random() < 0.15:
            pop = {'cls': 'RED', 'of': pop}
    # fix_first is realised by an op (kept out of the recipe)
    pop = _strip(pop)
    nd = zoo.pop_n_dim(pop)
    use_toy = rng.random() < 0.75
    if use_toy:
        n_out = rng.choice([1, 1, 2])
        errors = [{'cls': 'G'} for _ in range(n_out)]
        if rng.random() < 0.3:
            errors[0] = {'cls': 'CM'}
        while sum(zoo.n_error_params(e['cls']) for e in errors) >= nd:
            if len(errors) > 1:
                errors.pop()
            elif errors[0]['cls'] == 'CM':
                errors[0] = {'cls': 'G'}
            else:
                break
        n_out = len(errors)
        llspec = {'h': 'll', 'kind': 'llspec', 'toy': {'n_outputs': n_out},
                  'errors': errors}
    else:
        from .c08 import gen_mech_recipe
        mech, n_out = gen_mech_recipe(rng, allow_nonlinear=False)
        errors = [{'cls': rng.choice(['G', 'M', 'CM', 'LN'])}
                  for _ in range(n_out)]
        llspec = {'h': 'll', 'kind': 'llspec', 'mech': mech,
                  'errors': errors}
    grid = [0.5, 1.0, 2.0, 3.5]
    if rng.random() < 0.25:
        llspec['mech_wrap'] = rng.choice(['never_fixed', 'fix_release',
                                          'fixed'])
    if n_out > 1 and rng.random() < 0.3:
        llspec['same_error_instance'] = True
    if any(e['cls'] == 'CM' for e in errors) and rng.random() < 0.5:
        llspec['err_wrap'] = True
    llspec['times'] = [sorted(rng.sample(grid, rng.randint(1, 4)))
                       for _ in range(n_out)]
    if n_out > 1 and rng.random() < 0.15:
        # an output without measurements
        llspec['times'][rng.randrange(n_out)] = []
    llspec['obs'] = [[round(rng.uniform(0.2, 2.0), 2) for _ in ts]
                     for ts in llspec['times']]
    if not use_toy:
        # population model must match the likelihood's dimension
        import chi
        ll, _, _ = build_ll(llspec, None)
        n = ll.n_parameters()
        subs = []
        left = n
        first = True
        while left > 0:
            base = a if first else (b if rng.random() < 0.5
                                    else rng.choice(leaves))
            first = False
            leaf = gen_leaf(rng, base, n_ids0)
            tgt = leaf['of'] if 'of' in leaf else leaf
            tgt['n_dim'] = min(tgt['n_dim'], left)
            if 'pop_params' in leaf:
                leaf['pop_params'] = [[p, d % tgt['n_dim']]
                                      for p, d in leaf['pop_params']]
            subs.append(_strip(leaf))
            left -= tgt['n_dim']
        pop = subs[0] if len(subs) == 1 else {'cls': 'COMP', 'subs': subs}
    ops = []
    n_ops = rng.randint(1, 15 if tier == 'thorough' else 9)
    kinds = ['set_n_ids', 'set_dim_names', 'set_parameter_names',
             'set_covariate_names', 'wrap_reduced', 'fix', 'fix',
             'set_population_parameters', 'wrap_composed', 'compose_hier',
             'compose_hier', 'compose_ll', 'compose_poppred',
             'compose_filter', 'compose_controller']
    enabled = [k for k in kinds if rng.random() < 0.7] or kinds
    for _ in range(n_ops):
        o = rng.choice(enabled)
        op = {'op': o}
        if o == 'set_n_ids':
            op['n'] = rng.randint(1, 5)
        elif o == 'set_dim_names':
            op['names'] = None if rng.random() < 0.3 else ['dim', 'x']
        elif o == 'set_parameter_names':
            op['names'] = None if rng.random() < 0.3 else ['par', 'q']
        elif o == 'set_covariate_names':
            op['names'] = None if rng.random() < 0.3 else ['age', 'sex']
        elif o == 'fix':
            op['set'] = [[rng.randint(0, 11),
                          None if rng.random() < 0.3
                          else round(rng.uniform(0.3, 1.5), 2)]
                         for _ in range(rng.randint(1, 3))]
        elif o == 'set_population_parameters':
            op['pairs'] = [[rng.randint(0, 1), rng.randint(0, 2)]
                           for _ in range(rng.randint(1, 4))]
        elif o == 'wrap_composed':
            if not use_toy:
                continue
            op['with'] = [_strip(gen_leaf(rng, rng.choice(leaves), n_ids0))
                          for _ in range(rng.randint(1, 2))]
            op['front'] = rng.random() < 0.5
        elif o in ('compose_hier', 'compose_controller'):
            op['n_ids'] = rng.randint(1, 4)
            if o == 'compose_hier' and rng.random() < 0.3:
                op['labels'] = rng.choice(['none', 'mixed', 'reuse'])
            if o == 'compose_controller' and rng.random() < 0.3:
                op['ghost'] = True
        elif o == 'compose_ll':
            if rng.random() < 0.7:
                op['fix'] = [rng.randint(0, 40)
                             for _ in range(rng.randint(1, 3))]
                op['release'] = rng.random() < 0.7
                op['swap'] = rng.random() < 0.4
        elif o == 'compose_filter':
            op['n_samples'] = rng.randint(2, 4)
            ts = rng.sample([0.5, 1.0, 2.0, 3.0], rng.randint(1, 3))
            op['times'] = ts
            op['data'] = [[[round(rng.uniform(0.3, 2), 2) for _ in range(3)]
                           for _ in range(3)] for _ in range(3)]
            op['sigma'] = rng.random() < 0.4
        ops.append(op)
    return {'property': PROP,
            'recipes': [{'h': 'pm', 'kind': 'pop', 'pop': pop}, llspec],
            'ops': ops, 'n_ids0': n_ids0,
            'vals': [round(rng.uniform(0.3, 1.5), 3) for _ in range(17)],
            'cov_vals': [round(rng.uniform(0.0, 0.5), 3) for _ in range(5)],
            'profile': {'enabled': sorted(set(enabled)), 'toy': use_toy,
                        'avoid_known': avoid}}


def _strip(rec):
    rec = {k: v for k, v in rec.items() if k != 'fix_first'}
    if 'of' in rec:
        rec['of'] = _strip(rec['of'])
    if 'subs' in rec:
        rec['subs'] = [_strip(r) for r in rec['subs']]
    return rec


def recipe_tag(scenario):
    return _pop_tag(scenario['recipes'][0]['pop']) + (
        ':toy' if 'toy' in scenario['recipes'][1] else ':sbml')


def simplify(sc):
    """Simpler recipes: fewer sub-models, fewer dimensions, fewer ids."""
    pop = sc['recipes'][0]['pop']

    def with_pop(p):
        c = copy.deepcopy(sc)
        c['recipes'][0]['pop'] = p
        return c
    for cand in _simpler_pops(pop):
        yield with_pop(cand)
    if sc.get('n_ids0', 1) > 1:
        c = copy.deepcopy(sc)
        c['n_ids0'] = sc['n_ids0'] - 1
        yield c
    for i, op in enumerate(sc['ops']):
        if op['op'] == 'wrap_composed' and len(op['with']) > 1:
            for j in range(len(op['with'])):
                c = copy.deepcopy(sc)
                del c['ops'][i]['with'][j]
                yield c
        if op['op'] in ('compose_hier',) and op['n_ids'] > 1:
            c = copy.deepcopy(sc)
            c['ops'][i]['n_ids'] -= 1
            yield c
        if op['op'] == 'set_n_ids' and op['n'] > 1:
            c = copy.deepcopy(sc)
            c['ops'][i]['n'] -= 1
            yield c
        if op['op'] == 'fix' and len(op['set']) > 1:
            for j in range(len(op['set'])):
                c = copy.deepcopy(sc)
                del c['ops'][i]['set'][j]
                yield c


def _simpler_pops(p):
    if p['cls'] == 'COMP':
        if len(p['subs']) == 1:
            yield p['subs'][0]
        for i in range(len(p['subs'])):
            if len(p['subs']) > 1:
                q = copy.deepcopy(p)
                del q['subs'][i]
                yield q
        for i, sub in enumerate(p['subs']):
            for cand in _simpler_pops(sub):
                q = copy.deepcopy(p)
                q['subs'][i] = cand
                yield q
    elif p['cls'] in ('COV', 'RED'):
        yield p['of']
        for cand in _simpler_pops(p['of']):
            q = copy.deepcopy(p)
            q['of'] = cand
            if 'pop_params' in q:
                nd = zoo.pop_n_dim(cand)
                q['pop_params'] = [[a, b % nd] for a, b in q['pop_params']]
            yield q
        if p['cls'] == 'COV':
            if p.get('n_cov', 1) > 1:
                q = copy.deepcopy(p)
                q['n_cov'] = 1
                yield q
            if 'pop_params' in p:
                q = copy.deepcopy(p)
                del q['pop_params']
                yield q
    else:
        if p.get('n_dim', 1) > 1:
            q = copy.deepcopy(p)
            q['n_dim'] = p['n_dim'] - 1
            yield q


# ---------------------------------------------------------------------------
# triggers of the open known findings (known_findings.json)
# ---------------------------------------------------------------------------
def _pops_in(sc):
    yield sc['recipes'][0]['pop']
    for op in sc['ops']:
        if op['op'] == 'wrap_composed':
            for r in op['with']:
                yield r


def _walk(p):
    yield p
    if p['cls'] in ('COV', 'RED'):
        for q in _walk(p['of']):
            yield q
    if p['cls'] == 'COMP':
        for r in p['subs']:
            for q in _walk(r):
                yield q


def _special_inside(p):
    return any(q['cls'] in ('P', 'H') for q in _walk(p))


def trig_cov_over(kind):
    def f(sc):
        return any(q['cls'] == 'COV' and q['of']['cls'] == kind
                   for p in _pops_in(sc) for q in _walk(p))
    return f


def trig_filter_reduced_special(sc):
    if not any(op['op'] == 'compose_filter' for op in sc['ops']):
        return False
    wrapped = any(op['op'] == 'wrap_reduced' for op in sc['ops'])
    for p in _pops_in(sc):
        if wrapped and _special_inside(p):
            return True
        for q in _walk(p):
            if q['cls'] == 'RED' and _special_inside(q['of']):
                return True
    return False


def trig_reset_dim_names(sc):
    return any(op['op'] == 'set_dim_names' and op['names'] is None
               for op in sc['ops'])


def trig_nested_composed(sc):
    p0 = sc['recipes'][0]['pop']
    inner = p0['of'] if p0['cls'] == 'RED' else p0
    n_wrap = sum(1 for op in sc['ops'] if op['op'] == 'wrap_composed')
    if inner['cls'] != 'COMP':
        return n_wrap >= 2
    return n_wrap >= 1


def trig_reset_parameter_names(sc):
    return any(op['op'] == 'set_parameter_names' and op['names'] is None
               for op in sc['ops'])


KNOWN_TRIGGERS = {
    'nested_composed': trig_nested_composed,
    'reset_parameter_names': trig_reset_parameter_names,
    'cov_over_hetero': trig_cov_over('H'),
    'cov_over_pooled': trig_cov_over('P'),
    'filter_reduced_special': trig_filter_reduced_special,
    'reset_dim_names': trig_reset_dim_names,
}
