"""
C16 -- seeds fully determine random results; random streams are independent.

History oracle: D1 equal (entry, arguments, integer seed) => identical result,
whatever happened in between (global generator perturbations, other draws);
D2 different integer seeds => different draws; D3 a Generator passed as seed is
advanced, not restarted, not ignored (pair equals the pair from a twin
generator on a replica); D4 no two noise terms inside one draw share a random
number: (i) at the randomness seam, two generators starting from the same
state that both produce variates, systematically across seeds; (ii) on the
result, no two cells are perfectly dependent across the sample axis.
"""
import copy
import random

import numpy as np

from .. import zoo, rng_seam
from ..kernel import Violation, call, identical, is_exc, short

PROP = 'C16'
MUTATORS = {'perturb', 'draw'}
OBSERVERS = {'draw'}
ALWAYS_OBSERVED = True
BUDGET = {'quick': {'runs': 5000, 'wall': 70}, 'thorough': {'runs': 300000, 'wall': 1500}}
RULE = ('seeded generation of interleaved sampling calls on 2-4 sampling '
        'entry points with integer / Generator / None seeds and perturbations '
        'of the process-global generators in between; distinct = distinct '
        'SHA-256 of (entry kinds, sequence of (op, entry, seed kind)); '
        'non-trivial = a repeated (entry, arguments, seed) after a '
        'perturbation or another draw')


# ---------------------------------------------------------------------------
# entries
# ---------------------------------------------------------------------------
def _posterior_dataset(names, spec):
    import xarray as xr
    rs = np.random.RandomState(spec['seed'])
    n_chain, n_draw = spec.get('chains', 2), spec.get('draws', 4)
    ids = spec.get('ids', ['a', 'b'])
    data = {}
    for n in names:
        data[n] = xr.DataArray(
            rs.lognormal(-0.3, 0.2, size=(n_chain, n_draw, len(ids))),
            dims=['chain', 'draw', 'individual'],
            coords={'chain': list(range(n_chain)),
                    'draw': list(range(n_draw)), 'individual': ids})
    return xr.Dataset(data)


class Entry(object):
    def __init__(self, recipe):
        import chi
        import pints
        self.recipe = recipe
        k = recipe['kind']
        self.kind = k
        self.accepts_generator = True
        self.noisy = True
        if k == 'error':
            self.obj = zoo.build_error(recipe['error'])
        elif k == 'pop':
            self.obj = zoo.build_pop(recipe['pop'])
            self.obj.set_n_ids(recipe.get('n_ids', 1))
            self.noisy = _pop_noisy(recipe['pop'])
        else:
            mech = zoo.build_mech(dict(recipe['mech']))
            errs = [zoo.build_error(e) for e in recipe['errors']]
            if k in ('pred', 'poppred', 'priorpred', 'postpred', 'pam'):
                pred = chi.PredictiveModel(mech, errs)
                self.pred = pred
                if k == 'pred':
                    self.obj = pred
                elif k == 'poppred':
                    self.obj = chi.PopulationPredictiveModel(
                        pred, zoo.build_pop(recipe['pop']))
                elif k == 'priorpred':
                    self.obj = chi.PriorPredictiveModel(pred, zoo.build_prior(
                        {'n': pred.n_parameters(), 'kind': 'lognormal',
                         'a': -0.3, 'b': 0.2}))
                    self.accepts_generator = False
                elif k == 'postpred':
                    self.obj = chi.PosteriorPredictiveModel(
                        pred, _posterior_dataset(
                            pred.get_parameter_names(), recipe['posterior']))
                elif k == 'pam':
                    ds1 = _posterior_dataset(
                        pred.get_parameter_names(), recipe['posterior'])
                    ds2 = _posterior_dataset(
                        pred.get_parameter_names(),
                        dict(recipe['posterior'],
                             seed=recipe['posterior']['seed'] + 1))
                    self.obj = chi.PAMPredictiveModel(
                        [chi.PosteriorPredictiveModel(pred, ds1),
                         chi.PosteriorPredictiveModel(pred, ds2)],
                        recipe.get('weights', [0.5, 0.5]))
            else:
                times = recipe['times']
                obs = recipe['obs']
                self.accepts_generator = False
                if k == 'init_lp' or k == 'controller':
                    ll = chi.LogLikelihood(mech, errs, obs, times)
                    prior = zoo.build_prior(
                        {'n': ll.n_parameters(), 'kind': 'lognormal'})
                    if recipe.get('wild_prior'):
                        # a legal prior with mass where the likelihood is
                        # -inf (a Gaussian on the last error parameter)
                        import pints
                        n_ = ll.n_parameters()
                        prior = pints.ComposedLogPrior(*(
                            [pints.LogNormalLogPrior(-0.3, 0.2)
                             for _ in range(n_ - 1)]
                            + [pints.GaussianLogPrior(0.25, 0.4)]))
                    self.obj = chi.LogPosterior(ll, prior)
                elif k == 'init_hp':
                    lls = []
                    for i in range(recipe.get('n_ids', 2)):
                        lls.append(chi.LogLikelihood(mech, errs, obs, times))
                    pop = zoo.build_pop(recipe['pop'])
                    hl = chi.HierarchicalLogLikelihood(lls, pop)
                    self.obj = chi.HierarchicalLogPosterior(
                        hl, zoo.build_prior({
                            'n': hl.n_parameters(exclude_bottom_level=True),
                            'kind': 'lognormal'}))
                elif k == 'init_fp':
                    pop = zoo.build_pop(recipe['pop'])
                    n_out = mech.n_outputs()
                    ts = recipe['ftimes']
                    data = np.array(recipe['fdata'])[:, :n_out, :len(ts)]
                    flt = chi.GaussianFilter(data)
                    n_top = pop.n_parameters() + n_out
                    self.obj = chi.PopulationFilterLogPosterior(
                        flt, ts, mech, pop, zoo.build_prior(
                            {'n': n_top, 'kind': 'lognormal'}),
                        n_samples=recipe.get('n_sim', 3))
                else:
                    raise ValueError(k)

    def draw(self, args, seed):
        k = self.kind
        o = self.obj
        if k == 'error':
            return np.array(o.sample(
                args['parameters'], args['model_output'], args['n_samples'],
                seed))
        if k == 'pop':
            kw = {}
            if args.get('covariates') is not None:
                kw['covariates'] = np.array(args['covariates'])
            return np.array(o.sample(
                args['parameters'], n_samples=args['n_samples'], seed=seed,
                **kw))
        if k == 'pred':
            return o.sample(
                args['parameters'], args['times'], n_samples=args['n_samples'],
                seed=seed, return_df=args.get('return_df', False))
        if k == 'poppred':
            kw = {}
            if args.get('covariates') is not None:
                kw['covariates'] = np.array(args['covariates'])
            return o.sample(
                args['parameters'], args['times'], n_samples=args['n_samples'],
                seed=seed, return_df=args.get('return_df', False), **kw)
        if k == 'priorpred':
            return o.sample(args['times'], args['n_samples'], seed)
        if k in ('postpred', 'pam'):
            return o.sample(args['times'], args['n_samples'],
                            args.get('individual'), seed)
        if k == 'controller':
            import chi
            cls = chi.OptimisationController if args.get(
                'ctrl') == 'optimisation' else chi.SamplingController
            ctrl = cls(o, seed=seed)
            # the number of runs may be changed several times: the starting
            # points belong to the seed and the final number of runs
            for n_ in args.get('runs', []):
                ctrl.set_n_runs(n_)
            if args.get('iters') and cls is chi.SamplingController:
                # a (very short) run: the chains start from the seeded
                # points, and so do the samples
                res = ctrl.run(n_iterations=int(args['iters']))
                first = [np.asarray(res[v_]).ravel()
                         for v_ in sorted(res.data_vars)]
                return np.hstack([np.array(ctrl._initial_params).ravel()]
                                 + first)
            return np.array(ctrl._initial_params)
        return np.array(o.sample_initial_parameters(args['n_samples'], seed))


def _pop_noisy(p):
    if p['cls'] in ('G', 'LN', 'TG'):
        return True
    if p['cls'] in ('COV', 'RED'):
        return _pop_noisy(p['of'])
    if p['cls'] == 'COMP':
        return any(_pop_noisy(r) for r in p['subs'])
    # a heterogeneous model draws one of n_ids rows: discrete, so two seeds
    # may legitimately give the same draw -- not continuous noise
    return False


# ---------------------------------------------------------------------------
# D4
# ---------------------------------------------------------------------------
def stream_reuse(records):
    """Pairs of generators created in one draw from the same initial state."""
    by_state = {}
    for r in records:
        if r['what'] == 'default_rng':
            if r['moved']:
                by_state.setdefault(('g', r['initial']), []).append(r)
        else:
            by_state.setdefault(('s', r['initial']), []).append(r)
    return sum(1 for v in by_state.values() if len(v) > 1)


def reused_near(records, seed, window=256):
    """
    Seed arguments of re-used streams that are the caller's seed plus a small
    offset: derived from it by arithmetic, not drawn from a parent generator
    (a drawn child seed lands in that window with probability 3e-4, on top of
    the 1e-6 of coinciding at all).
    """
    by_state = {}
    for r in records:
        if r['what'] == 'default_rng' and not r['moved']:
            continue
        by_state.setdefault((r['what'], r['initial']), []).append(r)
    out = []
    for v in by_state.values():
        if len(v) > 1 and v[0].get('arg') is not None and \
                0 <= v[0]['arg'] - seed < window:
            out.append(v[0]['arg'])
    return out


def perfect_dependence(entry, args, res):
    """D4(ii): two cells perfectly dependent across the sample axis."""
    if is_exc(res) or not isinstance(res, np.ndarray):
        return None
    if entry.kind == 'error':
        a = np.asarray(res, dtype=float)          # (n_times, n_samples)
        mo = np.asarray(args['model_output'], dtype=float)[:, None]
        cls = entry.recipe['error']['cls']
        with np.errstate(all='ignore'):
            r = np.log(a / mo) if cls == 'LN' else a - mo
        cells = [('t%d' % i, r[i]) for i in range(r.shape[0])]
        if r.shape[0] >= 8:
            cells += [('s%d' % j, r[:, j]) for j in range(r.shape[1])]
    elif entry.kind == 'pred':
        a = np.asarray(res, dtype=float)     # (n_outputs, n_times, n_samples)
        cells = []
        for o in range(a.shape[0]):
            cls = entry.recipe['errors'][o]['cls']
            for t in range(a.shape[1]):
                v = a[o, t]
                with np.errstate(all='ignore'):
                    if cls == 'LN':
                        v = np.log(v)
                cells.append(('o%dt%d' % (o, t), v))
    else:
        return None
    groups = {}
    for name, v in cells:
        groups.setdefault(len(v), []).append((name, v))
    for n, items in groups.items():
        if n < 8:
            continue
        for i in range(len(items)):
            for j in range(i + 1, len(items)):
                x, y = items[i][1], items[j][1]
                if not (np.all(np.isfinite(x)) and np.all(np.isfinite(y))):
                    continue
                if np.std(x) == 0 or np.std(y) == 0:
                    continue
                c = abs(np.corrcoef(x, y)[0, 1])
                if c > 1 - 1e-9:
                    return '%s and %s have correlation %.12f over %d terms' \
                        % (items[i][0], items[j][0], c, n)
    return None


# ---------------------------------------------------------------------------
# interpreter
# ---------------------------------------------------------------------------
def perturb(op):
    how = op['how']
    if how == 'seed':
        rng_seam._REAL_SEED(int(op['value']))
    elif how == 'consume':
        np.random.random(int(op['value']) % 50 + 1)
    elif how == 'pyrandom':
        random.seed(int(op['value']))
    elif how == 'normal':
        np.random.normal(size=int(op['value']) % 7 + 1)


def run(scenario, world):
    entries = {}
    replicas = {}
    for r in scenario['recipes']:
        entries[r['h']] = Entry(r)
    gens = {}
    twins = {}
    first = {}          # (entry, args idx, int seed) -> (result, step)
    by_ea = {}          # (entry, args idx) -> {seed: result}
    last_gen = {}       # (gen, entry, args) -> last result
    triples = []
    prev = 'init'
    n_repeat = 0

    def replica(h):
        if h not in replicas:
            was = world.muted
            world.muted += 1
            try:
                replicas[h] = Entry(
                    [r for r in scenario['recipes'] if r['h'] == h][0])
            finally:
                world.muted = was
        return replicas[h]

    for step, op in enumerate(scenario['ops']):
        o = op['op']
        world.log('op', step, o)
        rng_seam.reseed_entropy(
            scenario.get('seed', 0) * 1000003 + op.get('eid', step))
        if o == 'perturb':
            perturb(op)
            world.fire('global_rng_' + op['how'])
        elif o == 'make_gen':
            gens[op['name']] = rng_seam._REAL_DEFAULT_RNG(op['seed'])
            twins[op['name']] = rng_seam._REAL_DEFAULT_RNG(op['seed'])
        elif o == 'unseeded_twice':
            # two unseeded calls in a row are two different draws: the
            # parameter sets drawn from the prior must not repeat
            h = op['entry']
            if h not in entries or entries[h].kind != 'priorpred':
                continue
            e = entries[h]
            args = e.recipe['args'][op['args'] % len(e.recipe['args'])]
            prior = e.obj._log_prior
            orig = prior.sample
            seen = []

            def spy(*a_, **k_):
                v_ = orig(*a_, **k_)
                seen.append(tuple(np.asarray(v_, dtype=float).ravel()
                                  .tolist()))
                return v_
            prior.sample = spy
            try:
                r1 = call(e.draw, args, None)
                n1 = len(seen)
                r2 = call(e.draw, args, None)
            finally:
                del prior.sample
            if not is_exc(r1) and not is_exc(r2) and n1 and \
                    seen[:n1] == seen[n1:]:
                raise Violation(
                    'D2.unseeded_calls', 'same_prior_draws',
                    'priorpred args %d: two consecutive unseeded calls drew '
                    'the same %d parameter sets from the prior: %s' % (
                        op['args'], n1, short(seen[:n1], 300)), step)
            world.probe('unseeded_calls_differ')
        elif o == 'replacement_probe':
            # D4 for the choice of posterior draws: the samples of one call
            # are backed by INDEPENDENT draws from the posterior, so with as
            # many samples as there are posterior rows a row is repeated in
            # most calls.  K calls without a single repeat have probability
            # (n!/n^n)^K < 1e-30 under the stated process; a procedure that
            # draws without replacement never shows one.
            h = op['entry']
            if h not in entries or entries[h].kind != 'postpred':
                continue
            e = entries[h]
            spec = e.recipe['posterior']
            n_rows = spec.get('chains', 2) * spec.get('draws', 3)
            if n_rows < 3 or n_rows > 8:
                continue
            import math
            p_none = math.factorial(n_rows) / float(n_rows ** n_rows)
            k_calls = int(math.ceil(-30 * math.log(10) / math.log(p_none)))
            inner = e.obj._predictive_model
            orig = inner.sample
            seen_repeat = False
            n_done = 0
            try:
                for s_ in range(k_calls):
                    rows = []

                    def spy(parameters, *a_, **k_):
                        rows.append(tuple(np.asarray(
                            parameters, dtype=float).tolist()))
                        return orig(parameters, *a_, **k_)
                    inner.sample = spy
                    r_ = call(e.obj.sample, [1.0], n_rows, None, 5000 + s_)
                    if is_exc(r_) or len(rows) != n_rows:
                        break
                    n_done += 1
                    if len(set(rows)) < len(rows):
                        seen_repeat = True
                        break
            finally:
                del inner.sample
            if n_done == k_calls and not seen_repeat:
                raise Violation(
                    'D4.without_replacement', 'never_a_repeat',
                    'postpred: %d calls with n_samples = %d = number of '
                    'posterior rows, not one call used a row twice '
                    '(probability %.1e under independent draws)' % (
                        k_calls, n_rows, p_none ** k_calls), step)
            world.probe('posterior_rows_repeat_as_expected')
        elif o == 'bad_draw':
            # a draw with an invalid seed (negative) raises; it must not
            # leave anything behind that later draws pick up
            h = op['entry']
            if h not in entries:
                continue
            e = entries[h]
            args = e.recipe['args'][op['args'] % len(e.recipe['args'])]
            res = call(e.draw, args, -1)
            world.probe('invalid_draw_raised' if is_exc(res)
                        else 'invalid_draw_accepted')
        elif o == 'draw':
            h = op['entry']
            if h not in entries:
                continue
            e = entries[h]
            args = e.recipe['args'][op['args'] % len(e.recipe['args'])]
            ai = op['args'] % len(e.recipe['args'])
            sd = op['seed']
            if isinstance(sd, dict):
                if sd['gen'] not in gens or not e.accepts_generator:
                    continue
                seed = gens[sd['gen']]
                skind = 'gen'
            else:
                seed = sd
                skind = 'none' if sd is None else 'int'
                if sd is not None and op.get('seed_np'):
                    # the same number as a numpy integer (what one gets from
                    # an array of seeds or from rng.integers)
                    seed = np.int64(sd)
            rng_seam.begin_records()
            res = call(e.draw, args, seed)
            recs = rng_seam.end_records()
            world.log('draw', h, ai, skind, res if not is_exc(res) else
                      res.type)
            if is_exc(res):
                if skind == 'none':
                    # nothing to compare an unseeded draw with
                    world.probe('unseeded_draw_raised')
                    continue
                # the same call on an untouched replica must raise the same
                rep = call(replica(h).draw, args,
                           twins[sd['gen']] if skind == 'gen' else seed)
                if not (is_exc(rep) and rep.type == res.type):
                    raise Violation(
                        'draw', 'raises', '%s args %d seed %s: %r\n%s' % (
                            e.kind, ai, sd, res, res.tb), step)
                world.probe('draw_raises_consistently')
                continue
            if skind == 'int':
                key = (h, ai, seed)
                if e.kind == 'controller':
                    # different histories of set_n_runs, same final number
                    key = (h, 'final', seed)
                if key in first:
                    n_repeat += 1
                    world.probe('same_seed_repeated')
                    if not identical(first[key][0], res):
                        raise Violation(
                            'D1.same_seed', 'differs',
                            '%s args %d seed %d: draw at step %d differs '
                            'from draw at step %d\n first: %s\n now:   %s' % (
                                e.kind, ai, seed, step, first[key][1],
                                short(first[key][0], 400), short(res, 400)),
                            step)
                else:
                    first[key] = (res, step)
                    others = by_ea.setdefault((h, ai), {})
                    if e.noisy:
                        for s2, r2 in others.items():
                            if identical(r2, res):
                                raise Violation(
                                    'D2.different_seed', 'same_draw',
                                    '%s args %d: seeds %d and %d give the '
                                    'same result %s' % (
                                        e.kind, ai, s2, seed,
                                        short(res, 300)), step)
                    others[seed] = res
                # D4(i): one stream used twice, systematically
                # (a controller whose number of runs is changed samples its
                # starting points afresh from the same seed each time, by
                # design: several draws, not one)
                several = e.kind == 'controller' and args.get('runs')
                if stream_reuse(recs) and not several:
                    near = reused_near(recs, seed)
                    if near:
                        # holds for this seed whatever other seeds do (a
                        # slip that only bites for seed 0, say)
                        raise Violation(
                            'D4.stream_reuse', 'same_initial_state',
                            '%s args %d seed %d: generators seeded with %s '
                            '(the caller\'s seed plus an offset) are created '
                            'more than once inside one draw and all produce '
                            'variates: %s' % (
                                e.kind, ai, seed, near,
                                [(r['what'], r['kind'], r['arg'], r['moved'])
                                 for r in recs]), step)
                    systematic = True
                    for extra in (1000003, 2000003):
                        rng_seam.begin_records()
                        call(replica(h).draw, args, seed + extra)
                        if not stream_reuse(rng_seam.end_records()):
                            systematic = False
                    if systematic:
                        raise Violation(
                            'D4.stream_reuse', 'same_initial_state',
                            '%s args %d seed %d: %d generators created inside '
                            'one draw start from the same state and all '
                            'produce variates: %s' % (
                                e.kind, ai, seed, len(recs),
                                [(r['what'], r['kind'], r['moved'])
                                 for r in recs]), step)
                    world.probe('stream_coincidence_not_systematic')
            elif skind == 'gen':
                g = sd['gen']
                world.probe('generator_passed_as_seed')
                rep = call(replica(h).draw, args, twins[g])
                if is_exc(rep) or not identical(rep, res):
                    raise Violation(
                        'D3.generator', 'not_reproducible',
                        '%s args %d: draw with generator %s differs from the '
                        'same sequence of draws with a twin generator on an '
                        'untouched replica\n object:  %s\n replica: %s' % (
                            e.kind, ai, g, short(res, 300), short(rep, 300)),
                        step)
                lk = (g, h, ai)
                if lk in last_gen and e.noisy and identical(
                        last_gen[lk], res):
                    raise Violation(
                        'D3.generator', 'restarted_or_ignored',
                        '%s args %d: two consecutive draws with the same '
                        'generator object are identical' % (e.kind, ai), step)
                last_gen[lk] = res
            # D4(ii)
            dep = perfect_dependence(e, args, res)
            if dep is not None:
                raise Violation(
                    'D4.dependent_noise', 'perfect_correlation',
                    '%s args %d seed %s: %s' % (e.kind, ai, sd, dep), step)
            triples.append((prev, skind, e.kind))
            prev = skind
    return {'triples': triples, 'extra': {'repeats': n_repeat}}


# ---------------------------------------------------------------------------
# generator
# ---------------------------------------------------------------------------
def _vals(rng, n, lo=0.3, hi=1.5):
    return [round(rng.uniform(lo, hi), 3) for _ in range(n)]


def gen_entry(rng, h, kind):
    from .c08 import gen_mech_recipe, gen_pop_recipe, set_n_ids_recipe
    r = {'h': h, 'kind': kind}
    ns_big = rng.choice([8, 9, 12, 16])
    if kind == 'error':
        cls = rng.choice(['G', 'M', 'CM', 'LN'])
        r['error'] = {'cls': cls, 'reduced': rng.random() < 0.3}
        r['args'] = []
        for _ in range(2):
            nt = rng.choice([1, 2, 3, 8, 10])
            r['args'].append({
                'parameters': _vals(rng, zoo.n_error_params(cls), 0.1, 0.6),
                'model_output': _vals(rng, nt, 0.5, 3.0),
                'n_samples': rng.choice([1, 2, ns_big])})
        return r
    if kind == 'pop':
        n_ids = rng.randint(1, 3)
        pop = set_n_ids_recipe(gen_pop_recipe(rng), n_ids)
        r['pop'] = pop
        r['n_ids'] = n_ids
        n = zoo.build_pop(pop).n_parameters()
        nc = zoo.pop_n_cov(pop)
        r['args'] = []
        for _ in range(2):
            a = {'parameters': _vals(rng, n), 'n_samples': rng.choice(
                [1, 3, ns_big])}
            if nc:
                a['covariates'] = _vals(rng, nc, 0.0, 0.5)
                if rng.random() < 0.5:
                    # one covariate row per sampled individual
                    a['covariates'] = [_vals(rng, nc, 0.0, 0.5)
                                       for _ in range(a['n_samples'])]
            r['args'].append(a)
        return r
    mech, n_out = gen_mech_recipe(rng, allow_nonlinear=False)
    r['mech'] = mech
    r['errors'] = [{'cls': rng.choice(['G', 'M', 'CM', 'LN'])}
                   for _ in range(n_out)]
    import chi
    m = zoo.build_mech(dict(mech))
    n_mech = m.n_parameters()
    n_par = n_mech + sum(zoo.n_error_params(e['cls']) for e in r['errors'])
    times = sorted(set(round(rng.uniform(0.2, 5), 1)
                       for _ in range(rng.randint(1, 4))))
    if kind in ('pred', 'priorpred', 'postpred', 'pam'):
        r['args'] = []
        for _ in range(2):
            ts = list(times)
            rng.shuffle(ts)
            if rng.random() < 0.25:
                # replicate measurements: one time requested twice
                ts.insert(rng.randint(0, len(ts)), rng.choice(ts))
            a = {'times': ts, 'n_samples': rng.choice([1, 2, ns_big])}
            if kind == 'pred':
                a['parameters'] = _vals(rng, n_mech) + _vals(
                    rng, n_par - n_mech, 0.05, 0.4)
                a['return_df'] = rng.random() < 0.3
            if kind in ('postpred', 'pam'):
                a['individual'] = rng.choice(['a', 'b', None])
                a['n_samples'] = rng.choice([1, 2, 4])
            if kind == 'priorpred':
                a['n_samples'] = rng.choice([1, 2, 3])
            r['args'].append(a)
        if kind in ('postpred', 'pam'):
            r['posterior'] = {'seed': rng.randint(0, 1000), 'chains': 2,
                              'draws': rng.randint(2, 4), 'ids': ['a', 'b']}
        if kind == 'pam':
            r['weights'] = rng.choice([[0.5, 0.5], [0.2, 0.8], [1.0, 0.0]])
        return r
    if kind == 'poppred':
        pop = set_n_ids_recipe(gen_pop_recipe(rng, n_dim_total=n_par), 1)
        r['pop'] = pop
        n = zoo.build_pop(pop).n_parameters()
        nc = zoo.pop_n_cov(pop)
        r['args'] = []
        for _ in range(2):
            a = {'parameters': _vals(rng, n, 0.2, 0.6), 'times': list(times),
                 'n_samples': rng.choice([1, 2, 5]),
                 'return_df': rng.random() < 0.3}
            if nc:
                a['covariates'] = _vals(rng, nc, 0.0, 0.3)
            r['args'].append(a)
        return r
    # initial parameter sampling
    r['times'] = [list(times) for _ in range(n_out)]
    r['obs'] = [_vals(rng, len(times), 0.2, 2.0) for _ in range(n_out)]
    r['args'] = [{'n_samples': rng.choice([1, 2, 3])} for _ in range(2)]
    if kind == 'controller':
        final = rng.randint(1, 4)
        which = rng.choice(['sampling', 'optimisation'])
        r['args'] = [
            {'runs': [final], 'ctrl': which},
            {'runs': [rng.randint(1, 12) for _ in range(rng.randint(0, 2))]
             + [final], 'ctrl': which}]
        if rng.random() < 0.3:
            r['args'][0]['runs'] = []      # the default number of runs
            r['args'][1]['runs'] = r['args'][1]['runs'][:-1] + [5]
        if which == 'sampling' and rng.random() < 0.3:
            for a_ in r['args']:
                a_['iters'] = 2
            r['wild_prior'] = rng.random() < 0.6
    if kind in ('init_hp', 'init_fp'):
        nd = n_par if kind == 'init_hp' else n_mech
        n_ids = rng.randint(1, 3)
        pop = gen_pop_recipe(rng, n_dim_total=nd, allow_cov=False)
        pop = _no_tg(pop)
        if kind == 'init_hp' and rng.random() < 0.25:
            # no dimension varies between individuals (all pooled and / or
            # heterogeneous): there are no bottom-level parameters to draw
            k_ = rng.randint(0, nd)
            subs = []
            if k_:
                subs.append({'cls': 'P', 'n_dim': k_})
            if nd - k_:
                subs.append({'cls': 'H', 'n_dim': nd - k_, 'n_ids': n_ids})
            rng.shuffle(subs)
            pop = subs[0] if len(subs) == 1 else {'cls': 'COMP',
                                                  'subs': subs}
        r['pop'] = set_n_ids_recipe(pop, n_ids if kind == 'init_hp'
                                    else rng.randint(2, 3))
        r['n_ids'] = n_ids
        if kind == 'init_fp':
            r['n_sim'] = _first_h(r['pop']) or rng.randint(2, 3)
            r['ftimes'] = sorted(rng.sample([0.5, 1.0, 2.0, 3.0],
                                            rng.randint(1, 3)))
            r['fdata'] = [[_vals(rng, 3) for _ in range(max(3, n_out))]
                          for _ in range(3)]
    return r


def _no_tg(p):
    p = copy.deepcopy(p)
    if p['cls'] == 'TG':
        p['cls'] = 'LN'
    if p['cls'] == 'COMP':
        p['subs'] = [_no_tg(q) for q in p['subs']]
    return p


def _first_h(p):
    if p['cls'] == 'H':
        return p.get('n_ids', 1)
    if p['cls'] == 'COMP':
        for q in p['subs']:
            v = _first_h(q)
            if v:
                return v
    return None


KINDS = ['error', 'pop', 'pred', 'poppred', 'priorpred', 'postpred', 'pam',
         'init_lp', 'init_hp', 'init_fp', 'controller']


def generate(rng, index, tier):
    n_entries = rng.randint(1, 3)
    kinds = [KINDS[index % len(KINDS)]] + [
        rng.choice(KINDS) for _ in range(n_entries - 1)]
    recipes = [gen_entry(rng, 'e%d' % i, k) for i, k in enumerate(kinds)]
    n_ops = rng.randint(3, 30 if tier == 'thorough' else 14)
    # (0 is always a candidate: the one seed that is falsy)
    seeds = [0] + rng.sample([1, 3, 11, 42, 12345, 999983], 2)
    if rng.random() < 0.4:
        # a seed beyond 32 bits that is congruent to another candidate
        # modulo 2**32 (legal for a Generator; a different seed)
        seeds.append(rng.choice(seeds) + 2 ** 32)
    ops = []
    n_gen = 0
    perturb_on = rng.random() < 0.8
    for _ in range(n_ops):
        r = rng.random()
        if r < 0.25 and perturb_on:
            ops.append({'op': 'perturb', 'how': rng.choice(
                ['seed', 'consume', 'pyrandom', 'normal']),
                'value': rng.randint(0, 10 ** 6)})
        elif r < 0.33 and n_gen < 2:
            n_gen += 1
            ops.append({'op': 'make_gen', 'name': 'g%d' % n_gen,
                        'seed': rng.choice(seeds)})
        else:
            h = 'e%d' % rng.randrange(len(recipes))
            q = rng.random()
            if q < 0.7:
                sd = rng.choice(seeds)
            elif q < 0.9 and n_gen:
                sd = {'gen': 'g%d' % rng.randint(1, n_gen)}
            else:
                sd = None
            ops.append({'op': 'draw', 'entry': h,
                        'args': rng.randint(0, 1), 'seed': sd})
            if isinstance(sd, int) and rng.random() < 0.2:
                ops[-1]['seed_np'] = True
            kind_h = recipes[int(h[1:])]['kind']
            if rng.random() < (0.25 if kind_h in ('postpred', 'pam')
                               else 0.06):
                ops.append({'op': 'bad_draw', 'entry': h,
                            'args': rng.randint(0, 1)})
    for i_, r_ in enumerate(recipes):
        if r_['kind'] == 'priorpred' and rng.random() < 0.4:
            ops.insert(rng.randint(0, len(ops)),
                       {'op': 'unseeded_twice', 'entry': 'e%d' % i_,
                        'args': rng.randint(0, 1)})
        if r_['kind'] == 'postpred' and rng.random() < 0.3:
            ops.insert(rng.randint(0, len(ops)),
                       {'op': 'replacement_probe', 'entry': 'e%d' % i_})
    for i, op in enumerate(ops):
        op['eid'] = i
    return {'property': PROP, 'recipes': recipes, 'ops': ops,
            'profile': {'kinds': kinds, 'perturb': perturb_on}}


def recipe_tag(scenario):
    return '+'.join(r['kind'] for r in scenario['recipes'])


def op_tag(op):
    if op['op'] == 'draw':
        sd = op['seed']
        return ':%s:%s' % (op['entry'], 'gen' if isinstance(sd, dict) else (
            'none' if sd is None else 'int'))
    if op['op'] == 'perturb':
        return ':' + op['how']
    return ''


def simplify(sc):
    """Drop entries nobody draws from; shorter argument lists."""
    used = set(op.get('entry') for op in sc['ops'] if op['op'] == 'draw')
    if any(r['h'] not in used for r in sc['recipes']):
        c = copy.deepcopy(sc)
        c['recipes'] = [r for r in c['recipes'] if r['h'] in used]
        if c['recipes']:
            yield c
