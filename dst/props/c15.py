"""
C15 (scoped) -- predictive models.

Decided by simulation: the *history* clause -- results of seeded sampling from
PredictiveModel / PopulationPredictiveModel (and through them prior, posterior
and averaged predictive models) do not depend on what the shared population
model, the controller or the mechanistic model were used for before -- plus,
on every table, the structural clause (each (ID, sorted time, observable) cell
exactly once and filled; covariate rows; dose rows equal to
get_dosing_regimen(final_time) for every ID) and, by intercepting the call from
the averaging model into the underlying predictive model, that the parameter
vector handed down is one complete (chain, draw) row of the posterior for the
requested individual / one prior draw, and that a zero-weight model is never
chosen.  That samples *follow* the stated distributions is not decided.
"""
import copy

import numpy as np

from .. import zoo
from ..kernel import (Held, Violation, call, identical, is_exc, short,
                      frames_equal)

PROP = 'C15'
MUTATORS = {'use_hier', 'set_n_ids', 'controller', 'sample', 'fix_elsewhere',
            'user_regimen', 'set_regimen'}
OBSERVERS = {'sample'}
BUDGET = {'quick': {'runs': 1500, 'wall': 75},
          'thorough': {'runs': 60000, 'wall': 1500}}
RULE = ('seeded generation of usage histories of a shared population model / '
        'controller / mechanistic model (hierarchical likelihoods over k '
        'individuals, set_n_ids, controller set_data + get_log_posterior, '
        'other sample sizes, fixes elsewhere, caller-side regimen changes) '
        'followed by seeded sampling from predictive models; distinct = '
        'distinct SHA-256 of (model kinds, operation sequence); non-trivial = '
        'a sample preceded by a state-changing use')


# ---------------------------------------------------------------------------
# stacks
# ---------------------------------------------------------------------------
def posterior_dataset(names, spec, scale=1.0, pop_level=False):
    import xarray as xr
    rs = np.random.RandomState(spec['seed'])
    n_chain, n_draw = spec.get('chains', 2), spec.get('draws', 3)
    ids = spec.get('ids', ['a', 'b'])
    data = {}
    pooled = set(spec.get('pooled') or [])
    for i_, n in enumerate(names):
        # (a hierarchical inference with pooled parameters stores these
        # without the individual dimension)
        if pop_level or i_ in pooled:
            data[n] = xr.DataArray(
                scale * rs.lognormal(-0.5, 0.15, size=(n_chain, n_draw)),
                dims=['chain', 'draw'],
                coords={'chain': list(range(n_chain)),
                        'draw': list(range(n_draw))})
        else:
            data[n] = xr.DataArray(
                scale * rs.lognormal(-0.3, 0.2,
                                     size=(n_chain, n_draw, len(ids))),
                dims=['chain', 'draw', 'individual'],
                coords={'chain': list(range(n_chain)),
                        'draw': list(range(n_draw)), 'individual': ids})
    return xr.Dataset(data)


class Stack(object):
    """User models and everything derived from them, from the recipes."""

    def __init__(self, sc):
        import chi
        self.sc = sc
        r = sc['recipes']
        self.m = zoo.build_mech(dict(r['mech']))
        self.errs = [zoo.build_error(e) for e in r['errors']]
        self.pop = zoo.build_pop(r['pop'])
        self.pred = chi.PredictiveModel(self.m, self.errs)
        self.pp = chi.PopulationPredictiveModel(self.pred, self.pop)
        self.other_pred = chi.PredictiveModel(self.m, self.errs)
        names = list(self.pred.get_parameter_names())
        # the data set may call the parameters differently (param_map); the
        # names it uses may even be names of OTHER model parameters
        pmk = r['posterior'].get('param_map')
        kw = {}
        if pmk and len(names) >= 2:
            a_, b_ = names[0], names[1]
            if pmk == 'swap':
                kw['param_map'] = {a_: b_, b_: a_}
                names[0], names[1] = b_, a_
            else:
                kw['param_map'] = {a_: b_, b_: 'renamed'}
                names[0], names[1] = b_, 'renamed'
        self.ds_names = names
        self.ds1 = posterior_dataset(names, r['posterior'])
        self.ds2 = posterior_dataset(
            names, dict(r['posterior'], seed=r['posterior']['seed'] + 7),
            scale=1.7)
        self.post = chi.PosteriorPredictiveModel(self.pred, self.ds1, **kw)
        self.post2 = chi.PosteriorPredictiveModel(
            chi.PredictiveModel(self.m, self.errs), self.ds2, **kw)
        self.ds3 = posterior_dataset(
            names, dict(r['posterior'], seed=r['posterior']['seed'] + 13),
            scale=0.6)
        self.post3 = chi.PosteriorPredictiveModel(
            chi.PredictiveModel(self.m, self.errs), self.ds3, **kw)
        w = list(r.get('weights', [0.5, 0.5]))
        models = [self.post, self.post2, self.post3][:len(w)]
        self.pam = chi.PAMPredictiveModel(models, w)
        self.prior_obj = zoo.build_prior(
            {'n': self.pred.n_parameters(), 'kind': 'lognormal', 'a': -0.3,
             'b': 0.2})
        self.prior = chi.PriorPredictiveModel(self.pred, self.prior_obj)
        self.cpp = None
        self.cpred = None

    def target(self, name):
        return getattr(self, name)


def controller_cycle(stack, op, fresh_m=None):
    """Controller built from the user models, data with k individuals."""
    import chi
    import pandas as pd
    m = stack.m if fresh_m is None else fresh_m
    ctrl = chi.ProblemModellingController(m, stack.errs)
    outs = ctrl._mechanistic_model.outputs()
    rows = []
    k = op['n_ids']
    for i in range(k):
        for j, o in enumerate(outs):
            for t, v in zip(op['times'], op['values'][(i + j) % len(
                    op['values'])]):
                rows.append({'ID': i + 1, 'Time': t, 'Observable': o,
                             'Value': v, 'Dose': np.nan, 'Duration': np.nan})
        if op.get('doses'):
            for (t, d, dur) in op['doses'][i % len(op['doses'])]:
                rows.append({'ID': i + 1, 'Time': t, 'Observable': np.nan,
                             'Value': np.nan, 'Dose': d, 'Duration': dur})
    df = pd.DataFrame(rows)
    kw = {'dose_key': None, 'dose_duration_key': None}
    if op.get('doses') and m.supports_dosing() and \
            getattr(m, 'administration', lambda: None)() is not None:
        kw = {'dose_key': 'Dose', 'dose_duration_key': 'Duration'}
    if op.get('with_pop'):
        ctrl.set_population_model(stack.pop)
    ctrl.set_data(df, **kw)
    if op.get('posterior'):
        import pints
        n = ctrl.get_n_parameters()
        ctrl.set_log_prior(zoo.build_prior({'n': n, 'kind': 'lognormal'}))
        ctrl.get_log_posterior()
    return ctrl


# ---------------------------------------------------------------------------
# checks
# ---------------------------------------------------------------------------
def draw(target, kind, args):
    """
    One seeded sample.  The times (and parameters) go in as the caller's
    numpy arrays in some of the argument sets; they must come back unchanged.
    """
    as_array = bool(args.get('arrays'))
    times = np.array(args['times']) if as_array else list(args['times'])
    before = np.array(times)
    try:
        return _draw(target, kind, args, times)
    finally:
        if not (np.array(times).shape == before.shape
                and np.array_equal(np.array(times), before)):
            raise Violation(
                'table.argument', 'times_modified',
                '%s.sample changed the caller\'s times from %s to %s' % (
                    kind, before.tolist(), np.array(times).tolist()), None)


def _draw(target, kind, args, times):
    if kind in ('pred',):
        return target.sample(
            args['parameters'], times, n_samples=args['n_samples'],
            seed=args['seed'], return_df=args['return_df'],
            include_regimen=True)
    if kind in ('pp', 'cpp'):
        kw = {}
        if args.get('covariates') is not None:
            kw['covariates'] = np.array(args['covariates'])
        return target.sample(
            args['pop_parameters'], times,
            n_samples=args['n_samples'], seed=args['seed'],
            return_df=args['return_df'], include_regimen=True, **kw)
    if kind == 'cpred':
        return target.sample(
            args['parameters'], times, n_samples=args['n_samples'],
            seed=args['seed'], return_df=args['return_df'],
            include_regimen=True)
    if kind == 'prior':
        return target.sample(times, args['n_samples'], args['seed'],
                             include_regimen=True)
    if kind in ('post', 'pam'):
        return target.sample(times, args['n_samples'],
                             args.get('individual'), args['seed'],
                             include_regimen=True)
    raise ValueError(kind)


def check_table(df, target, kind, args, step):
    """Structural clause on a returned data frame."""
    import pandas as pd
    if not isinstance(df, pd.DataFrame):
        return
    n = args['n_samples']
    times = sorted(args['times'])
    outs = list(target.get_output_names()) if hasattr(
        target, 'get_output_names') else None
    meas = df[df['Observable'].isin(outs)] if outs else df
    # covariate rows: every sample ID carries ITS covariate values, labelled
    # with the covariate's name
    cv = args.get('covariates')
    pm_ = getattr(target, '_population_model', None)
    if kind in ('pp', 'cpp') and cv is not None and pm_ is not None \
            and pm_.n_covariates() > 0:
        cnames = list(pm_.get_covariate_names())
        cvm = np.array(cv, dtype=float)
        if cvm.ndim == 1:
            cvm = np.broadcast_to(cvm, (n, len(cvm)))
        for i in range(1, n + 1):
            for c, cn in enumerate(cnames):
                rows = df[(df['ID'] == i) & (df['Observable'] == cn)]
                got = sorted(float(v) for v in rows['Value'])
                # (sub-models may use the same default covariate name)
                want_ = sorted(float(cvm[i - 1][c2])
                               for c2, n2 in enumerate(cnames) if n2 == cn)
                if got != want_:
                    raise Violation(
                        'table.covariates', 'wrong_row',
                        '%s: sample ID %d, covariate %r: table holds %s, the '
                        'covariates handed over were %s' % (
                            kind, i, cn, got, cvm.tolist()), step)
    cells = {}
    for _, row in meas.iterrows():
        key = (int(row['ID']), float(row['Time']), row['Observable'])
        cells[key] = cells.get(key, 0) + 1
        if not np.isfinite(row['Value']):
            raise Violation('table.cells', 'not_filled',
                            '%s: cell %s holds %r' % (kind, key, row['Value']),
                            step)
    want = set((i, float(t), o) for i in range(1, n + 1) for t in times
               for o in outs)
    # duplicated time points are legitimate duplicates of cells
    mult = {}
    for t in args['times']:
        mult[float(t)] = mult.get(float(t), 0) + 1
    if set(cells) != want or any(
            cells[k] != mult[k[1]] for k in cells):
        missing = sorted(want - set(cells))[:5]
        extra = sorted(set(cells) - want)[:5]
        raise Violation(
            'table.cells', 'not_exactly_once',
            '%s n_samples %d times %s: missing %s unexpected %s counts %s' % (
                kind, n, args['times'], missing, extra,
                sorted(set(cells.values()))), step)
    # a time requested twice gives two measurements, i.e. two noise terms:
    # with continuous noise they are never the same number
    if any(m_ > 1 for m_ in mult.values()):
        seen = {}
        for _, row in meas.iterrows():
            key = (int(row['ID']), float(row['Time']), row['Observable'],
                   float(row['Value']))
            seen[key] = seen.get(key, 0) + 1
        same = sorted(k for k, c in seen.items() if c > 1)
        if same:
            raise Violation(
                'table.cells', 'replicates_share_noise',
                '%s times %s: the replicate measurements %s carry the same '
                'value' % (kind, args['times'], same[:3]), step)
    # time order within each (ID, observable)
    for (i, o), grp in meas.groupby(['ID', 'Observable'], sort=False):
        ts = grp['Time'].tolist()
        if ts != sorted(ts):
            raise Violation('table.order', 'times_not_ascending',
                            '%s ID %s %s: %s' % (kind, i, o, ts), step)
    # dose rows
    reg = call(target.get_dosing_regimen, max(times))
    if is_exc(reg):
        return
    check_regimen_rows(target, kind, max(times), reg, step)
    if 'Dose' in df.columns:
        doses = df[df['Dose'].notnull()]
    else:
        doses = df.iloc[0:0]
    if reg is None:
        if len(doses):
            raise Violation('table.doses', 'unexpected',
                            '%s: dose rows without a regimen' % kind, step)
        return
    want_rows = sorted((float(r['Time']), float(r['Duration']),
                        float(r['Dose'])) for _, r in reg.iterrows())
    if kind in ('prior', 'post', 'pam'):
        # averaged models append the regimen once (no sample ID)
        got = sorted((float(r['Time']), float(r['Duration']),
                      float(r['Dose'])) for _, r in doses.iterrows())
        if got != want_rows:
            raise Violation('table.doses', 'differs',
                            '%s: dose rows %s, regimen %s' % (
                                kind, got, want_rows), step)
        return
    for i in range(1, n + 1):
        got = sorted((float(r['Time']), float(r['Duration']),
                      float(r['Dose']))
                     for _, r in doses[doses['ID'] == i].iterrows())
        if got != want_rows:
            raise Violation(
                'table.doses', 'differs',
                '%s: dose rows of ID %d %s, regimen up to %s is %s' % (
                    kind, i, got, max(times), want_rows), step)


def expected_dose_rows(protocol, final_time):
    """Dose events up to and including ``final_time``, expanded from the
    myokit protocol itself - an oracle that does not share the code path of
    ``get_dosing_regimen``.  Returns None when the protocol holds an
    indefinitely repeated event (chi's documented treatment of those is not
    an expansion, so nothing is demanded there)."""
    rows = []
    for ev in protocol.events():
        start, dur, per, mult = (ev.start(), ev.duration(), ev.period(),
                                 ev.multiplier())
        if per != 0 and mult == 0:
            return None
        n = 1 if per == 0 else mult
        for k in range(n):
            t = start + k * per if per != 0 else start
            if t <= final_time:
                rows.append((float(t), float(dur), float(ev.level() * dur)))
    return sorted(rows)


def check_regimen_rows(target, kind, final_time, reg, step):
    """The dose rows the tables are built from (``get_dosing_regimen``) are
    the events of the protocol the mechanistic model reports, up to and
    including the final time - also when the final time is itself a dose
    time, which is asked for explicitly."""
    if kind not in ('pred', 'pp', 'cpp', 'cpred'):
        return
    base = target._predictive_model if kind in ('pp', 'cpp') else target
    prot = call(lambda: base.get_submodels()[
        'Mechanistic model'].dosing_regimen())
    if is_exc(prot) or prot is None:
        return

    def rows_of(r):
        if r is None:
            return []
        return sorted((float(x['Time']), float(x['Duration']),
                       float(x['Dose'])) for _, x in r.iterrows())
    want = expected_dose_rows(prot, final_time)
    if want is None:
        return
    finals = [(final_time, reg)]
    every = expected_dose_rows(prot, float('inf'))
    for t in sorted(set(r[0] for r in every))[:4]:
        got = call(target.get_dosing_regimen, t)
        if not is_exc(got):
            finals.append((t, got))
    for ft, r in finals:
        want = expected_dose_rows(prot, ft)
        if rows_of(r) != want:
            raise Violation(
                'table.doses', 'not_the_protocol_events',
                '%s: get_dosing_regimen(%s) lists %s, the protocol holds %s '
                'up to that time' % (kind, ft, rows_of(r), want), step)


class Intercept(object):
    """Records the parameter vectors an averaging model hands down."""

    def __init__(self, preds):
        self.preds = preds
        self.calls = []
        self._orig = []

    def __enter__(self):
        for idx, p in enumerate(self.preds):
            orig = p.sample
            self._orig.append((p, orig))

            def spy(parameters, *a, _orig=orig, _idx=idx, **kw):
                self.calls.append((_idx, np.array(parameters, dtype=float)))
                return _orig(parameters, *a, **kw)
            p.sample = spy
        return self

    def __exit__(self, *a):
        for p, orig in self._orig:
            try:
                del p.sample
            except AttributeError:
                p.sample = orig


def joint_row(ds, names, individual, vec):
    """Is vec one complete (chain, draw) row of ds for the individual?"""
    arrs = []
    for nm in names:
        a = ds[nm]
        if 'individual' in a.dims:
            a = a.sel(individual=individual)
        arrs.append(np.asarray(a.values))
    n_chain, n_draw = arrs[0].shape
    for c in range(n_chain):
        for d in range(n_draw):
            if all(arrs[k][c, d] == vec[k] for k in range(len(names))):
                return True
    return False


def check_outputs_argument(scenario, world):
    """
    Two routes to the same predictive model: `outputs=` in the constructor
    (documented to map the error models to the outputs) and `set_outputs` on
    the mechanistic model beforehand.  Same seed -> the same table.
    """
    import chi
    r = scenario['recipes']
    if not r.get('outputs_arg') or len(r['errors']) < 2:
        return
    m1 = zoo.build_mech(dict(r['mech']))
    m2 = zoo.build_mech(dict(r['mech']))
    perm = list(m1.outputs())[::-1]
    if len(set(perm)) != len(perm) or perm == list(m1.outputs()):
        return
    errs = [zoo.build_error(e) for e in r['errors']][::-1]
    a = call(chi.PredictiveModel, m1, errs, outputs=perm)
    m2.set_outputs(perm)
    b = chi.PredictiveModel(m2, errs)
    if is_exc(a):
        raise Violation('outputs_argument', 'raises', '%r\n%s' % (a, a.tb),
                        -1)
    n = b.n_parameters()
    x = [0.5 + 0.07 * i for i in range(n)]
    ta = call(a.sample, x, [1.0, 2.5], n_samples=3, seed=4, return_df=True)
    tb = call(b.sample, x, [1.0, 2.5], n_samples=3, seed=4, return_df=True)
    if list(a.get_parameter_names()) != list(b.get_parameter_names()) or (
            not identical(ta, tb)):
        raise Violation(
            'outputs_argument', 'differs_from_set_outputs',
            'PredictiveModel(m, errs, outputs=%s) and set_outputs(%s) '
            'followed by PredictiveModel(m, errs):\n names %s\n   vs  %s\n'
            ' table %s\n   vs  %s' % (
                perm, perm, a.get_parameter_names(), b.get_parameter_names(),
                short(ta, 300), short(tb, 300)), -1)
    world.probe('outputs_argument_checked')


# ---------------------------------------------------------------------------
# interpreter
# ---------------------------------------------------------------------------
def run(scenario, world):
    import chi
    main = Stack(scenario)
    held = Held()
    check_outputs_argument(scenario, world)
    triples = []
    prev = 'init'
    fresh_cache = {}
    regimen_ops = []
    n_checked = 0
    user_regimen = None
    for step, op in enumerate(scenario['ops']):
        o = op['op']
        world.log('op', step, o)
        if o == 'set_n_ids':
            r = call(main.pop.set_n_ids, op['n'])
            if is_exc(r):
                raise Violation('op.set_n_ids', 'raises', repr(r), step)
        elif o == 'use_hier':
            k = op['n_ids']
            lls = []
            for i in range(k):
                ll = chi.LogLikelihood(
                    main.m, main.errs,
                    [list(v) for v in op['obs']], [list(t) for t in
                                                   op['times']])
                ll.set_id('i%d' % i)
                lls.append(ll)
            kw = {}
            nc = main.pop.n_covariates()
            if nc:
                kw['covariates'] = np.array(
                    [op['cov'][(i) % len(op['cov'])][:nc] for i in range(k)])
            hl = call(chi.HierarchicalLogLikelihood, lls, main.pop, **kw)
            if is_exc(hl):
                world.probe('hier_not_buildable')
            else:
                x = np.array([op['x'][i % len(op['x'])]
                              for i in range(hl.n_parameters())])
                call(hl, x)
                world.probe('population_model_used_in_hier')
        elif o == 'controller':
            ctrl = call(controller_cycle, main, op)
            if is_exc(ctrl):
                world.probe('controller_cycle_failed')
                continue
            pm = call(ctrl.get_predictive_model)
            if is_exc(pm):
                raise Violation('op.get_predictive_model', 'raises',
                                '%r\n%s' % (pm, pm.tb), step)
            if op.get('with_pop'):
                main.cpp = pm
            else:
                main.cpred = pm
            world.probe('controller_cycle')
        elif o == 'fix_elsewhere':
            names = main.other_pred.get_parameter_names()
            if not names:
                continue        # everything is fixed already
            r = call(main.other_pred.fix_parameters,
                     {names[op['idx'] % len(names)]: op['value']})
        elif o == 'set_regimen':
            # the regimen is (re)set through a predictive model: part of the
            # net configuration, replayed on the fresh stack below
            target = main.target(op['on'])
            if target is None:
                continue
            r = call(target.set_dosing_regimen, op['dose'], start=op['start'],
                     duration=op['duration'], period=op.get('period'))
            if is_exc(r):
                world.probe('regimen_rejected')
                continue
            regimen_ops.append(op)
            world.probe('regimen_set_through_predictive_model')
            triples.append((prev, 'set_regimen', op['on']))
            prev = 'set_regimen'
        elif o == 'user_regimen':
            r = call(main.m.set_dosing_regimen, op['dose'],
                     start=op['start'], duration=op['duration'])
            if not is_exc(r):
                world.probe('user_changed_regimen_after_handover')
        elif o == 'bad_sample':
            # an invalid request (negative seed) raises; nothing of it may
            # show in later samples (they are compared with a fresh stack)
            kind = op['on']
            target = main.target(kind)
            if target is None:
                continue
            args = scenario['args'][op['args'] % len(scenario['args'])]
            res = call(draw, target, kind, dict(args, seed=-1))
            world.probe('invalid_sample_raised' if is_exc(res)
                        else 'invalid_sample_accepted')
            triples.append((prev, 'bad_sample', kind))
            prev = 'bad_sample'
        elif o == 'sample':
            kind = op['on']
            target = main.target(kind)
            if target is None:
                continue
            args = scenario['args'][op['args'] % len(scenario['args'])]
            args = dict(args, n_samples=op.get('n_samples',
                                               args['n_samples']))
            cv = args.get('covariates')
            if cv is not None and np.ndim(cv) == 2:
                args['covariates'] = [cv[i % len(cv)]
                                      for i in range(args['n_samples'])]
            preds = [main.pred] if kind in ('prior', 'post') else (
                [main.post._predictive_model, main.post2._predictive_model,
                 main.post3._predictive_model]
                if kind == 'pam' else [])
            prior_draws = []
            if kind == 'prior':
                orig_ps = main.prior_obj.sample

                def spy_prior(*a, **kw):
                    v = orig_ps(*a, **kw)
                    prior_draws.append(np.array(v).flatten())
                    return v
                main.prior_obj.sample = spy_prior
            world.begin_op(None)
            with Intercept(preds) as ic:
                res = call(draw, target, kind, args)
            runs = list(world.solver_runs)
            world.end_op()
            # tables / arrays handed out earlier still hold what they held
            held.verify(step)
            held.keep('%s.sample (step %d)' % (kind, step), res)
            # the dose rows of the table describe the regimen the model
            # reports: it must be the one the simulation applied
            if kind in ('pred', 'pp', 'cpp', 'cpred') and not is_exc(res):
                from ..solver_stub import protocol_events
                base = target._predictive_model if kind in ('pp', 'cpp') \
                    else target
                sub = call(lambda: base.get_submodels()['Mechanistic model'])
                rep = call(lambda: protocol_events(sub.dosing_regimen()))
                if not is_exc(rep):
                    for r_ in runs:
                        if r_['protocol'] != rep:
                            raise Violation(
                                'table.doses', 'not_the_applied_regimen',
                                '%s: the simulation ran with %s, the model '
                                'reports %s' % (kind, r_['protocol'], rep),
                                step)
            if kind == 'prior':
                del main.prior_obj.sample
            # reference: a fresh stack that has seen nothing
            fkey = 'fresh'
            fresh = Stack(scenario)
            for rop in regimen_ops:
                ft_ = fresh.target(rop['on'])
                if ft_ is not None:
                    ft_.set_dosing_regimen(
                        rop['dose'], start=rop['start'],
                        duration=rop['duration'], period=rop.get('period'))
            ftarget = None
            if kind in ('cpp', 'cpred'):
                # the controller's predictive model carries whatever regimen
                # the controller's shared model currently has: build the
                # fresh stack with the regimen the object reports
                sub = (target._predictive_model if kind == 'cpp'
                       else target).get_submodels()['Mechanistic model']
                reg = call(lambda: sub.dosing_regimen())
                fm = zoo.build_mech(dict(scenario['recipes']['mech']))
                if not is_exc(reg) and reg is not None:
                    fm.set_dosing_regimen(reg)
                fpred = chi.PredictiveModel(fm, fresh.errs)
                ftarget = fpred if kind == 'cpred' else \
                    chi.PopulationPredictiveModel(fpred, fresh.pop)
            else:
                ftarget = fresh.target(kind)
            ref = call(draw, ftarget, kind, args)
            if is_exc(res) or is_exc(ref):
                if not (is_exc(res) and is_exc(ref) and res.type == ref.type):
                    raise Violation(
                        'history.sample', 'raises' if is_exc(res)
                        else 'fresh_raises',
                        '%s n_samples %d after %d operations:\n object: %s\n'
                        ' fresh stack: %s' % (
                            kind, args['n_samples'], step,
                            short(res, 300) + (res.tb if is_exc(res) else ''),
                            short(ref, 300) + (ref.tb if is_exc(ref) else '')),
                        step)
                world.probe('sample_raises_consistently')
            else:
                if not identical(res, ref):
                    raise Violation(
                        'history.sample', 'differs_from_fresh_stack',
                        '%s n_samples %d seed %s after %d operations:\n'
                        ' object: %s\n fresh stack: %s' % (
                            kind, args['n_samples'], args['seed'], step,
                            short(res, 400), short(ref, 400)), step)
                n_checked += 1
                check_table(res, target, kind, args, step)
                # joint-draw clause
                if kind == 'post':
                    ind = args.get('individual') or 'a'
                    names = main.ds_names
                    for _, vec in ic.calls:
                        if not joint_row(main.ds1, names, ind, vec):
                            raise Violation(
                                'joint_draw.posterior', 'not_a_row',
                                'vector %s handed to the predictive model is '
                                'not one (chain, draw) row of individual %s'
                                % (vec.tolist(), ind), step)
                    if len(ic.calls) != args['n_samples']:
                        raise Violation(
                            'joint_draw.posterior', 'count',
                            '%d draws for %d samples' % (
                                len(ic.calls), args['n_samples']), step)
                    world.probe('posterior_rows_verified', len(ic.calls))
                if kind == 'pam':
                    ind = args.get('individual') or 'a'
                    names = main.ds_names
                    w = scenario['recipes'].get('weights', [0.5, 0.5])
                    gw = call(lambda: np.asarray(target.get_weights()))
                    want_w = np.asarray(w, dtype=float) / np.sum(w)
                    if is_exc(gw) or gw.shape != want_w.shape or not \
                            np.allclose(gw, want_w, rtol=1e-12, atol=0):
                        raise Violation(
                            'joint_draw.averaged', 'weights',
                            'stated weights %s, model uses %s' % (
                                want_w.tolist(), short(gw)), step)
                    dss = [main.ds1, main.ds2, main.ds3][:len(w)]
                    for idx, vec in ic.calls:
                        hit = [joint_row(d_, names, ind, vec) for d_ in dss]
                        if not any(hit):
                            raise Violation(
                                'joint_draw.averaged', 'not_a_row',
                                'vector %s is a row of no posterior'
                                % vec.tolist(), step)
                        if any(h_ and w[i] == 0 for i, h_ in enumerate(hit)):
                            raise Violation(
                                'joint_draw.averaged', 'zero_weight_chosen',
                                'weights %s but a row of model %d was used'
                                % (w, hit.index(True) + 1), step)
                    if len(ic.calls) != args['n_samples']:
                        raise Violation(
                            'joint_draw.averaged', 'count',
                            '%d draws for %d samples' % (
                                len(ic.calls), args['n_samples']), step)
                    world.probe('pam_rows_verified', len(ic.calls))
                if kind == 'prior':
                    if len(ic.calls) != args['n_samples'] or len(
                            prior_draws) != args['n_samples']:
                        raise Violation(
                            'joint_draw.prior', 'count',
                            '%d predictive calls, %d prior draws for %d '
                            'samples' % (len(ic.calls), len(prior_draws),
                                         args['n_samples']), step)
                    for (_, vec), pd_ in zip(ic.calls, prior_draws):
                        if not np.array_equal(vec, pd_):
                            raise Violation(
                                'joint_draw.prior', 'not_one_draw',
                                'vector %s is not the prior draw %s' % (
                                    vec.tolist(), pd_.tolist()), step)
                    world.probe('prior_draws_verified', len(ic.calls))
            world.log('sample', kind, args['n_samples'])
        triples.append((prev, o + ':' + str(op.get('on', '')),
                        scenario['recipes']['pop']['cls']))
        prev = o
    return {'triples': triples, 'extra': {'samples_compared': n_checked}}


# ---------------------------------------------------------------------------
# generator
# ---------------------------------------------------------------------------
def _vals(rng, n, lo=0.3, hi=1.5):
    return [round(rng.uniform(lo, hi), 3) for _ in range(n)]


def _strip_special(p, kinds=('P', 'H')):
    """
    Replace heterogeneous dimensions (their parameter count legitimately
    depends on the number of individuals, so 'the same call' does not exist
    across histories) and, in most runs, pooled ones (open known finding).
    """
    p = copy.deepcopy(p)
    if p['cls'] in kinds:
        return {'cls': 'LN', 'n_dim': p.get('n_dim', 1), 'centered': True}
    if p['cls'] == 'COMP':
        p['subs'] = [_strip_special(q, kinds) for q in p['subs']]
    if p['cls'] in ('COV', 'RED'):
        p['of'] = _strip_special(p['of'], kinds)
    return p


def generate(rng, index, tier):
    from .c08 import gen_mech_recipe, gen_pop_recipe, set_n_ids_recipe
    from .c19 import _no_tg
    mech, n_out = gen_mech_recipe(rng, allow_nonlinear=False)
    errors = [{'cls': rng.choice(['G', 'M', 'CM', 'LN'])}
              for _ in range(n_out)]
    m = zoo.build_mech(dict(mech))
    n_mech = m.n_parameters()
    n_par = n_mech + sum(zoo.n_error_params(e['cls']) for e in errors)
    avoid = rng.random() < 0.75
    pop = _no_tg(gen_pop_recipe(rng, n_dim_total=n_par))
    pop = _strip_special(pop, ('P', 'H') if avoid else ('H',))
    pop = set_n_ids_recipe(pop, 1)
    pop_obj = zoo.build_pop(pop)
    n_pop = pop_obj.n_parameters()
    pop_names = pop_obj.get_parameter_names()
    nc = zoo.pop_n_cov(pop)

    def pop_point():
        out = []
        for nm in pop_names:
            if 'Cov.' in nm:
                out.append(round(rng.uniform(0.0, 0.2), 3))
            elif 'Log std' in nm:
                out.append(round(rng.uniform(0.05, 0.3), 3))
            elif 'Std' in nm:
                out.append(round(rng.uniform(0.02, 0.12), 3))
            elif 'Log mean' in nm:
                out.append(round(rng.uniform(-0.6, 0.1), 3))
            else:
                out.append(round(rng.uniform(0.4, 1.2), 3))
        return out
    recipes = {'mech': mech, 'errors': errors, 'pop': pop,
               'posterior': {'seed': rng.randint(0, 1000),
                             'chains': rng.choice([1, 2, 2, 3]),
                             'draws': rng.randint(2, 4), 'ids': ['a', 'b'],
                             'pooled': sorted(rng.sample(
                                 range(4), rng.choice([0, 0, 1, 2]))),
                             'param_map': rng.choice(
                                 [None, None, None, 'swap', 'chain'])},
               'outputs_arg': rng.random() < 0.5,
               'weights': rng.choice([[0.5, 0.5], [0.3, 0.7], [1.0, 0.0],
                                      [0.0, 2.0], [0.3, 0.3, 0.4],
                                      [0.5, 0.0, 0.5], [1.0, 1.0, 2.0]])}
    args = []
    for _ in range(3):
        ts = [round(rng.uniform(0.2, 5), 1)
              for _ in range(rng.randint(1, 4))]
        if rng.random() < 0.8:
            ts = list(dict.fromkeys(ts))
        if rng.random() < 0.12:
            # whole numbers handed over as integers
            ts = [rng.randint(1, 5) for _ in ts]
            if rng.random() < 0.7:
                ts = list(dict.fromkeys(ts))
        if rng.random() < 0.25:
            # a time requested twice (replicate measurements)
            ts.insert(rng.randint(0, len(ts)), rng.choice(ts))
        a = {'parameters': _vals(rng, n_mech) + _vals(
            rng, n_par - n_mech, 0.05, 0.4),
            'pop_parameters': pop_point(),
            'times': ts, 'n_samples': rng.randint(1, 5),
            'arrays': rng.random() < 0.5,
            'seed': rng.randint(0, 10 ** 6),
            'return_df': rng.random() < 0.7,
            'individual': rng.choice(['a', 'b', None])}
        if nc:
            a['covariates'] = _vals(rng, nc, 0.0, 0.3) if rng.random() < 0.6 \
                else [_vals(rng, nc, 0.0, 0.3) for _ in range(a['n_samples'])]
        args.append(a)
    has_route = any(o['op'] == 'set_administration' for o in mech['config'])
    ops = []
    n_ops = rng.randint(2, 20 if tier == 'thorough' else 10)
    kinds = ['pred', 'pp', 'pp', 'prior', 'post', 'pam', 'cpp', 'cpred']
    grid = sorted(set(round(rng.uniform(0.2, 6), 1) for _ in range(4)))
    if has_route and rng.random() < 0.25:
        # a dose-finding loop on one averaged / posterior / prior predictive
        # model: sample, change the regimen through that model, sample again
        # over the same times
        on_ = rng.choice(['pam', 'pam', 'post', 'prior'])
        a_ = rng.randint(0, 2)
        for _ in range(2):
            ops.append({'op': 'set_regimen', 'on': on_,
                        'dose': round(rng.uniform(0.5, 3), 2),
                        'start': rng.choice([0, 0.5, 1.0]),
                        'duration': rng.choice([0.01, 0.1]),
                        'period': rng.choice([None, 1, 2])})
            ops.append({'op': 'sample', 'on': on_, 'args': a_,
                        'n_samples': rng.randint(1, 4)})
    for _ in range(n_ops):
        r = rng.random()
        if r < 0.14:
            ops.append({'op': 'set_n_ids', 'n': rng.randint(1, 5)})
        elif r < 0.28:
            ops.append({
                'op': 'use_hier', 'n_ids': rng.randint(1, 4),
                'times': [sorted(rng.sample(grid, rng.randint(1, len(grid))))
                          for _ in range(n_out)],
                'x': _vals(rng, 7), 'cov': [_vals(rng, 4, 0.0, 0.3)
                                            for _ in range(4)]})
            ops[-1]['obs'] = [_vals(rng, len(t), 0.2, 2.0)
                              for t in ops[-1]['times']]
        elif r < 0.42:
            op = {'op': 'controller', 'n_ids': rng.randint(1, 4),
                  'with_pop': rng.random() < 0.6 and nc == 0,
                  'posterior': rng.random() < 0.6,
                  'times': sorted(rng.sample(grid, rng.randint(1, len(grid)))),
                  'values': [_vals(rng, 4, 0.2, 2.0) for _ in range(3)]}
            if has_route and rng.random() < 0.7:
                op['doses'] = [[[round(0.3 + 1.1 * j + rng.uniform(0, 0.5), 1),
                                 round(rng.uniform(0.5, 3), 2),
                                 rng.choice([0.01, 0.1])]
                                for j in range(rng.randint(1, 2))]
                               for _ in range(3)]
            ops.append(op)
        elif r < 0.47:
            ops.append({'op': 'fix_elsewhere', 'idx': rng.randint(0, 9),
                        'value': round(rng.uniform(0.3, 1.5), 2)})
        elif r < 0.54 and has_route:
            ops.append({'op': 'set_regimen',
                        'on': rng.choice(['pam', 'pam', 'post', 'prior',
                                          'pred', 'pp']),
                        'dose': round(rng.uniform(0.5, 3), 2),
                        'start': rng.choice([0, 0.5, 1.0]),
                        'duration': rng.choice([0.01, 0.1]),
                        'period': rng.choice([None, 1, 2])})
        elif r < 0.59 and has_route:
            ops.append({'op': 'user_regimen',
                        'dose': round(rng.uniform(0.5, 3), 2),
                        'start': rng.choice([0, 0.5]),
                        'duration': rng.choice([0.01, 0.1])})
        else:
            ops.append({'op': 'sample', 'on': rng.choice(kinds),
                        'args': rng.randint(0, 2),
                        'n_samples': rng.randint(1, 6)})
            if rng.random() < 0.1:
                ops.append({'op': 'bad_sample', 'on': ops[-1]['on'],
                            'args': rng.randint(0, 2)})
    return {'property': PROP, 'recipes': recipes, 'args': args, 'ops': ops,
            'profile': {'avoid_known': avoid}}


def recipe_tag(scenario):
    from .c17 import _pop_tag
    return _pop_tag(scenario['recipes']['pop'])


def op_tag(op):
    if op['op'] == 'sample':
        return ':%s:%d' % (op['on'], op.get('n_samples', 0))
    if op['op'] in ('set_n_ids', 'use_hier', 'controller'):
        return ':%s' % op.get('n', op.get('n_ids'))
    return ''


def trig_special_dims(sc):
    from .c17 import _walk
    return any(q['cls'] == 'P' for q in _walk(sc['recipes']['pop']))


KNOWN_TRIGGERS = {'special_dims': trig_special_dims}
