"""
C11 -- mechanistic model behaviour depends only on its final configuration.

Reference model: a configuration record advanced op by op; oracle: after every
operation the real object (and every tracked copy) observes like a *fresh*
model to which the record is applied in one canonical order, and the protocol
in force in the solver at each run is the one ``dosing_regimen()`` reports.
"""
import copy

import numpy as np

from .. import zoo
from ..kernel import Violation, call, close, is_exc, short
from ..solver_stub import protocol_events

PROP = 'C11'
MUTATORS = {'set_administration', 'set_dosing_regimen', 'set_outputs',
            'set_parameter_names', 'set_output_names', 'enable_sensitivities',
            'fix_parameters', 'copy'}
OBSERVERS = {"simulate", "observe"}
ALWAYS_OBSERVED = True
BUDGET = {'quick': {'runs': 2000, 'wall': 70},
          'thorough': {'runs': 100000, 'wall': 1500}}

_INFO = {}


def model_info(src):
    """Names chi will see, read with myokit (not chi) from the model file."""
    key = repr(sorted(src.items())) if 'lib' in src else zoo.sbml_text(
        src['gen'])
    hit = _INFO.get(key)
    if hit is None:
        import myokit.formats.sbml as sbml
        m = sbml.SBMLImporter().model(zoo.model_path(src))
        states = [v.qname() for v in m.states()]
        inter = [v.qname() for v in m.variables(inter=True, deep=True)]
        consts = [v.qname() for v in m.variables(const=True, deep=True)
                  if v.is_literal()]
        hit = {'states': states, 'inter': inter, 'consts': consts}
        _INFO[key] = hit
    return hit


# ---------------------------------------------------------------------------
# reference model
# ---------------------------------------------------------------------------
class Ref(object):
    def __init__(self, recipe):
        self.cls = recipe.get('cls', 'pkpd')
        self.src = recipe['src']
        self.reduced = bool(recipe.get('reduced'))
        self.route = None
        self.regimen = None        # op dict or None
        self.regimen_alts = None   # admissible set after a route change
        self.out_names = {}        # myokit -> public (selected outputs)
        self.par_names = {}        # myokit -> public (renamed only)
        self.sens = None           # None | 'all' | [public names]
        self.fixed = {}            # myokit name -> value
        self.outputs = list(self.base()['outputs'])

    def clone(self):
        return copy.deepcopy(self)

    # what a fresh model with this route publishes by default
    def base(self, route='__cur__'):
        if route == '__cur__':
            route = self.route
        key = (repr(self.src), self.cls, repr(route))
        hit = _BASE.get(key)
        if hit is None:
            from .. import world as _w
            cur = _w.CURRENT
            if cur is not None:
                cur.muted += 1
            try:
                m = self._bare(route)
            finally:
                if cur is not None:
                    cur.muted -= 1
            sim_model = m._simulator._model
            vars_ok = set()
            for v in sim_model.variables(deep=True):
                if v.is_state() or v.is_intermediary():
                    vars_ok.add(v.qname())
            hit = {'params': list(m.parameters()),
                   'outputs': list(m.outputs()),
                   'vars': vars_ok}
            _BASE[key] = hit
        return hit

    def _bare(self, route):
        import chi
        path = zoo.model_path(self.src)
        m = (chi.PKPDModel if self.cls == 'pkpd' else chi.SBMLModel)(path)
        if route is not None:
            m.set_administration(
                route['compartment'], amount_var=route['amount_var'],
                direct=route['direct'])
        return m

    def public_params(self):
        return [self.par_names.get(n, n) for n in self.base()['params']]

    def free_params(self):
        """[(myokit, public)] in order, without the fixed ones."""
        return [(n, self.par_names.get(n, n)) for n in self.base()['params']
                if n not in self.fixed]

    def public_outputs(self):
        return [self.out_names.get(n, n) for n in self.outputs]

    def fresh(self):
        """Fresh model with the net configuration, canonical order."""
        import chi
        m = self._bare(self.route)
        if self.outputs != self.base()['outputs']:
            m.set_outputs(list(self.outputs))
        ren = {n: p for n, p in self.par_names.items() if n != p}
        if ren:
            m.set_parameter_names(ren)
        oren = {n: p for n, p in self.out_names.items() if n != p}
        if oren:
            m.set_output_names(oren)
        if self.regimen is not None:
            zoo.apply_mech_op(m, self.regimen)
        if self.reduced:
            m = chi.ReducedMechanisticModel(m)
            if self.fixed:
                m.fix_parameters(
                    {self.par_names.get(n, n): v
                     for n, v in self.fixed.items()})
            if self.sens is not None:
                m.enable_sensitivities(True)
        elif self.sens is not None:
            if self.sens == 'all':
                m.enable_sensitivities(True)
            else:
                m.enable_sensitivities(
                    True, [self.par_names.get(n, n) for n in self.sens])
        return m


_BASE = {}


def regimen_events(op):
    """Event tuples a regimen op stands for (as chi/myokit build them)."""
    if op is None:
        return None
    if 'protocol' in op:
        return tuple(
            (float(a), float(b), float(c), float(d), int(e))
            for a, b, c, d, e in op['protocol'])
    period = op.get('period')
    num = op.get('num')
    if num is None:
        num = 0
    if period is None:
        period = 0
        num = 0
    dur = op.get('duration', 0.01)
    return ((float(op['dose']) / float(dur), float(op.get('start', 0)),
             float(dur), float(period), int(num)),)


def translate_outputs(ref, outputs):
    """chi's public->myokit translation of a set_outputs argument."""
    outputs = list(outputs)
    for myokit_name in ref.outputs:
        public = ref.out_names.get(myokit_name, myokit_name)
        if public in outputs:
            outputs[outputs.index(public)] = myokit_name
    return outputs


def transition(ref, op):
    """
    Advances the record.  Returns (expect_exc_type | None, new_ref | None).
    ``'skip'`` as first element means the op is ambiguous / inapplicable here
    and is not executed.
    """
    k = op['op']
    new = ref.clone()
    if k == 'set_administration':
        if ref.cls != 'pkpd' or ref.reduced:
            return 'skip', None
        route = {'compartment': op['compartment'],
                 'amount_var': op.get('amount_var', 'drug_amount'),
                 'direct': bool(op.get('direct', True))}
        try:
            nb = ref.base(route)
        except Exception:
            return 'skip', None
        # ambiguous: selected output or renamed parameter would disappear
        if any(o not in nb['vars'] for o in ref.outputs):
            return 'skip', None
        if any(n not in nb['params'] for n in ref.par_names):
            return 'skip', None
        new.route = route
        new.sens = None
        if ref.regimen is not None:
            new.regimen_alts = [ref.regimen, None]
        return None, new
    if k == 'set_dosing_regimen':
        if ref.cls != 'pkpd':
            return 'skip', None
        if ref.route is None:
            return 'ValueError', None
        new.regimen = {kk: vv for kk, vv in op.items() if kk != 'on'}
        new.regimen_alts = None
        return None, new
    if k == 'set_outputs':
        outs = translate_outputs(ref, op['outputs'])
        if not outs:
            return 'skip', None
        ok = ref.base()['vars']
        if any(o not in ok for o in outs):
            return 'KeyError', None
        # ambiguous: re-selecting an output whose rename is being dropped is
        # fine; re-selecting later is not generated.  Renames of deselected
        # outputs are forgotten (as a fresh model would not know them).
        new.outputs = outs
        new.out_names = {n: p for n, p in ref.out_names.items() if n in outs}
        new.sens = None
        return None, new
    if k == 'set_parameter_names':
        names = dict(op['names'])
        cur = ref.public_params()
        vals = list(names.values())
        if len(set(vals)) != len(vals):
            return 'ValueError', None
        if any(v in cur for v in vals):
            return 'ValueError', None
        for n in ref.base()['params']:
            p = ref.par_names.get(n, n)
            if p in names:
                new.par_names[n] = str(names[p])
        return None, new
    if k == 'set_output_names':
        names = dict(op['names'])
        cur = ref.public_outputs()
        vals = list(names.values())
        if len(set(vals)) != len(vals):
            return 'ValueError', None
        if any(v in cur for v in vals):
            return 'ValueError', None
        for n in ref.outputs:
            p = ref.out_names.get(n, n)
            if p in names:
                new.out_names[n] = str(names[p])
        return None, new
    if k == 'enable_sensitivities':
        if not op['enabled']:
            new.sens = None
            return None, new
        if ref.reduced:
            new.sens = 'all'
            if not ref.free_params():
                # no free parameter: whatever a fresh model does is right
                return 'ask_fresh', new
            return None, new
        if op.get('names') is None:
            new.sens = 'all'
            return None, new
        sel = [n for n in ref.base()['params']
               if ref.par_names.get(n, n) in op['names']]
        if not sel:
            return 'ValueError', None
        new.sens = sel     # myokit names: a later rename keeps the selection
        return None, new
    if k == 'fix_parameters':
        if not ref.reduced:
            return 'skip', None
        for n in ref.base()['params']:
            p = ref.par_names.get(n, n)
            if p in op['values']:
                v = op['values'][p]
                if v is None:
                    new.fixed.pop(n, None)
                else:
                    new.fixed[n] = float(v)
        if ref.sens is not None and not new.free_params():
            # if a fresh model raises here, the state after the failed call
            # is not defined by the property: then it is not executed
            return 'ask_fresh_or_skip', new
        return None, new
    if k == 'copy':
        new.sens = None
        return None, new
    raise ValueError('unknown op ' + k)


# ---------------------------------------------------------------------------
# observation
# ---------------------------------------------------------------------------
def assemble(ref, theta):
    """Vector the object currently expects, from values keyed by name."""
    return [float(theta.get(n, 0.7)) for n, _ in ref.free_params()]


def observe(real, ref, probe, world, step, label):
    """Compares every observable of `real` with a fresh model."""
    # regimen: reported value must be admissible
    if ref.cls == 'pkpd':
        rep = call(lambda: protocol_events(real.dosing_regimen()))
        if is_exc(rep):
            raise Violation('fresh_model.regimen', 'raises', '%s: %r' % (
                label, rep), step)
        if ref.regimen_alts is not None:
            alts = [regimen_events(r) for r in ref.regimen_alts]
            if rep not in alts:
                raise Violation(
                    'fresh_model.regimen', 'not_admissible',
                    '%s reports %s, admissible %s' % (label, rep, alts), step)
            ref.regimen = ref.regimen_alts[alts.index(rep)]
            ref.regimen_alts = None
        elif rep != regimen_events(ref.regimen):
            raise Violation(
                'fresh_model.regimen', 'differs',
                '%s reports %s, expected %s' % (
                    label, rep, regimen_events(ref.regimen)), step)
    fresh = call(ref.fresh)
    if is_exc(fresh):
        # the net configuration itself is rejected by a fresh model: nothing
        # to compare against (e.g. sensitivities with all parameters fixed)
        world.probe('fresh_rejected')
        return
    for what, f in [
            ('names', lambda m: list(m.parameters())),
            ('n_parameters', lambda m: int(m.n_parameters())),
            ('outputs', lambda m: list(m.outputs())),
            ('n_outputs', lambda m: int(m.n_outputs())),
            ('has_sensitivities', lambda m: bool(m.has_sensitivities()))]:
        a = call(f, real)
        b = call(f, fresh)
        if not close(a, b):
            raise Violation(
                'fresh_model.' + what, 'differs',
                '%s: real %s, fresh %s' % (label, short(a), short(b)), step)
    n = call(lambda: int(real.n_parameters()))
    names = call(lambda: list(real.parameters()))
    if not is_exc(n) and not is_exc(names) and n != len(names):
        raise Violation('fresh_model.names', 'count_mismatch',
                        '%s: n_parameters %s, names %s' % (label, n, names),
                        step)
    theta = assemble(ref, probe['theta'])
    times = list(probe['times'])
    world.begin_op(None)
    a = call(real.simulate, np.array(theta), np.array(times))
    runs = list(world.solver_runs)
    world.end_op()
    was = world.faults_enabled
    world.faults_enabled = False
    b = call(fresh.simulate, np.array(theta), np.array(times))
    world.faults_enabled = was
    if not close(a, b, rtol=1e-9, atol=1e-11):
        kind = 'raises' if is_exc(a) and not is_exc(b) else (
            'shape' if (not is_exc(a) and not is_exc(b)
                        and _shape(a) != _shape(b)) else 'values')
        raise Violation(
            'fresh_model.simulate', kind,
            '%s: theta %s times %s real %s fresh %s' % (
                label, theta, times, short(a), short(b)), step)
    if (not ref.reduced and ref.sens not in (None, 'all')
            and isinstance(a, tuple) and len(a) == 2):
        # an independent look at the LAYOUT of the sensitivities: the
        # columns returned for a subset are the corresponding columns of the
        # sensitivities with respect to all parameters, in parameters() order
        full = ref.clone()
        full.sens = 'all'
        was = world.faults_enabled
        world.faults_enabled = False
        world.muted += 1
        try:
            fm = call(full.fresh)
            c = call(fm.simulate, np.array(theta), np.array(times)) \
                if not is_exc(fm) else fm
        finally:
            world.muted -= 1
            world.faults_enabled = was
        if not is_exc(c) and isinstance(c, tuple):
            all_names = [str(n_) for n_ in fm.parameters()]
            asked = set(ref.par_names.get(n_, n_) for n_ in ref.sens)
            idx = [i_ for i_, n_ in enumerate(all_names) if n_ in asked]
            want = np.asarray(c[1])[:, :, idx]
            got = np.asarray(a[1])
            if got.shape != want.shape or not close(
                    got, want, rtol=1e-5, atol=1e-8, norm=True):
                raise Violation(
                    'sensitivities.layout', 'subset_differs_from_all',
                    '%s: sensitivities for %s: %s; the columns %s of the '
                    'sensitivities for all parameters %s: %s' % (
                        label, sorted(asked), short(got, 300), idx,
                        all_names, short(want, 300)), step)
            world.probe('subset_sensitivity_layout_checked')
    if ref.cls == 'pkpd' and runs and not is_exc(a):
        rep = call(lambda: protocol_events(real.dosing_regimen()))
        for r in runs:
            if r['protocol'] != rep:
                raise Violation(
                    'solver.protocol_in_force', 'differs_from_reported',
                    '%s: solver ran with %s, model reports %s' % (
                        label, r['protocol'], rep), step)
    if not is_exc(a):
        world.log('obs', label, a if not isinstance(a, tuple) else list(a))


def _shape(x):
    if isinstance(x, tuple):
        return tuple(np.shape(v) for v in x)
    return np.shape(x)


# ---------------------------------------------------------------------------
# interpreter
# ---------------------------------------------------------------------------
def run(scenario, world):
    recipe = scenario['recipes'][0]
    probe = scenario['probe']
    objs = {}
    refs = {}
    m = zoo.build_mech({k: v for k, v in recipe.items() if k != 'config'
                        and k != 'reduced'})
    ref = Ref(dict(recipe, reduced=False))
    for op in recipe.get('config', []):
        exp, new = transition(ref, op)
        if exp is None:
            zoo.apply_mech_op(m, op)
            ref = new
    if recipe.get('reduced'):
        import chi
        m = chi.ReducedMechanisticModel(m)
        ref.reduced = True
    h0 = recipe['h']
    objs[h0] = m
    refs[h0] = ref
    triples = []
    states = set()
    prev = 'init'
    kind = ('reduced-' if ref.reduced else '') + ref.cls
    observe(m, ref, probe, world, -1, h0)
    n_exec = 0

    def state_of(r):
        # abstract configuration reached (no numeric values)
        return '%s|%s|%s|reg=%s|out=%d%s|ren=%d|sens=%s|fix=%d' % (
            kind, 'lib' if 'lib' in r.src else 'gen',
            'none' if r.route is None else (
                'direct' if r.route['direct'] else 'indirect'),
            'none' if r.regimen is None else (
                'protocol' if 'protocol' in r.regimen else (
                    'periodic' if r.regimen.get('period') else 'single')),
            len(r.outputs), 'r' if any(
                k != v for k, v in r.out_names.items()) else '',
            sum(1 for k, v in r.par_names.items() if k != v),
            'off' if r.sens is None else (
                'all' if r.sens == 'all' else 'subset'), len(r.fixed))
    for step, op in enumerate(scenario['ops']):
        h = op.get('on')
        if h not in objs:
            continue
        real, ref = objs[h], refs[h]
        k = op['op']
        world.log('op', step, k, h)
        if k == 'simulate':
            theta = assemble(ref, op['theta'])
            fault = op.get('fault')
            world.begin_op(fault)
            a = call(real.simulate, np.array(theta), np.array(op['times']))
            world.end_op()
            if fault is not None and fault.get('kind') == 'nan' and any(
                    'fault' in r for r in world.solver_runs):
                # non-finite solver output without an exception: nothing
                # documented to expect from this call; the comparison with a
                # fresh model below shows whether the model survived it
                world.probe('simulate_returned_non_finite_values')
            elif fault is not None and world.solver_runs and any(
                    'fault' in r for r in world.solver_runs):
                if not (is_exc(a) and a.type == 'SimulationError'):
                    raise Violation(
                        'fault.simulate', 'not_propagated',
                        'solver failure did not propagate: %s' % short(a),
                        step)
                world.probe('simulate_failed_by_fault')
            # compare with a fresh model at this point too
            observe(real, ref, {'theta': op['theta'], 'times': op['times']},
                    world, step, h)
        elif k == 'observe':
            pass
        elif k == 'bad_call':
            # a configuration call with an invalid argument must raise and
            # leave the model as it was (shown by what follows)
            how = op['how']
            if how in ('compartment', 'amount_var') and (
                    ref.cls != 'pkpd' or ref.reduced):
                continue
            if how == 'compartment':
                r = call(real.set_administration, 'no_such_compartment')
            elif how == 'amount_var':
                r = call(real.set_administration, op['compartment'],
                         amount_var='no_such_variable')
            elif how == 'output':
                r = call(real.set_outputs, ['no.such_output'])
            else:
                r = call(real.enable_sensitivities, True,
                         ['no such parameter'])
            if not is_exc(r):
                # accepted after all: the net configuration is unknown to
                # the reference from here on
                world.probe('invalid_call_accepted')
                return {'triples': triples, 'n_exec': n_exec,
                        'extra': {'configurations_reached': sorted(states)}}
            world.probe('invalid_call_rejected')
            observe(real, ref, scenario['probe'], world, step, h)
        elif k == 'copy':
            new_h = op['as']
            if new_h in objs:
                continue
            exp, new = transition(ref, op)
            if ref.sens is not None:
                world.probe('copy_taken_with_sensitivities_on')
            c = call(real.copy)
            if is_exc(c):
                raise Violation('copy', 'raises', repr(c), step)
            objs[new_h] = c
            refs[new_h] = new
        else:
            exp, new = transition(ref, op)
            if exp in ('ask_fresh', 'ask_fresh_or_skip'):
                was = world.faults_enabled
                world.faults_enabled = False
                f = call(ref.fresh)
                fr = call(zoo.apply_mech_op, f, op) if not is_exc(f) else f
                world.faults_enabled = was
                if is_exc(fr):
                    exp = 'skip' if exp == 'ask_fresh_or_skip' else fr.type
                else:
                    exp = None
            if exp == 'skip':
                world.log('skip', step)
                continue
            r = call(zoo.apply_mech_op, real, op)
            if exp is None:
                if is_exc(r):
                    raise Violation(
                        'op.' + k, 'raises',
                        '%s on %s raised %r\n%s' % (k, h, r, r.tb), step)
                refs[h] = new
                if k == 'set_administration' and ref.route is not None \
                        and ref.route['direct'] != new.route['direct']:
                    world.probe('route_direct_indirect_switch')
                if k == 'set_administration' and ref.regimen is not None:
                    world.probe('route_change_with_regimen')
            else:
                if not (is_exc(r) and r.type == exp):
                    raise Violation(
                        'op.' + k, 'expected_' + exp,
                        '%s on %s returned %s' % (k, h, short(r)), step)
                world.probe('documented_exception_' + exp)
        n_exec += 1
        triples.append((prev, k, kind))
        prev = k
        # every tracked object must still look like its own configuration
        for hh in sorted(objs):
            observe(objs[hh], refs[hh], probe, world, step, hh)
            states.add(state_of(refs[hh]))
    return {'triples': triples, 'n_exec': n_exec,
            'extra': {'configurations_reached': sorted(states)}}


# ---------------------------------------------------------------------------
# generator
# ---------------------------------------------------------------------------
OP_KINDS = ['set_administration', 'set_dosing_regimen', 'set_outputs',
            'set_parameter_names', 'set_output_names', 'enable_sensitivities',
            'fix_parameters', 'copy', 'simulate']


def gen_source(rng):
    r = rng.random()
    if r < 0.35:
        return 'pkpd', {'lib': 'pk1'}
    if r < 0.45:
        return 'pkpd', {'lib': 'full'}
    if r < 0.52:
        return 'sbml', {'lib': rng.choice(['tgi', 'tgi_rep'])}
    return 'pkpd', {'gen': zoo.gen_sbml_spec(
        rng, nonlinear=rng.random() < 0.12)}


def gen_regimen(rng):
    if rng.random() < 0.2:
        evs = []
        t = round(rng.uniform(0, 1), 2)
        for _ in range(rng.randint(1, 3)):
            d = rng.choice([0.01, 0.1, 0.4])
            evs.append([round(rng.uniform(0.5, 3), 2), t, d, 0, 0])
            t = round(t + d + rng.uniform(0.2, 1.5), 2)
        return {'op': 'set_dosing_regimen', 'protocol': evs}
    op = {'op': 'set_dosing_regimen', 'dose': round(rng.uniform(0.5, 3), 2),
          'start': rng.choice([0, 0, 0.5, 1.3]),
          'duration': rng.choice([0.01, 0.1, 0.5])}
    if rng.random() < 0.6:
        op['period'] = rng.choice([1, 2.5])
        if rng.random() < 0.6:
            op['num'] = rng.choice([2, 3])
    return op


def gen_theta(rng, info):
    names = info['states'] + info['consts'] + [
        'dose.drug_amount', 'dose.absorption_rate']
    return {n: round(rng.uniform(0.2, 2.0), 3) for n in names}


def gen_times(rng):
    n = rng.randint(1, 6)
    if rng.random() < 0.15:
        # whole numbers, handed over as integers (an integer array)
        return sorted(set(rng.randint(0, 6) for _ in range(n)))
    ts = sorted(set(round(rng.uniform(0, 6), 2) for _ in range(n)))
    return ts


ENUM_KINDS = ['set_administration', 'set_dosing_regimen', 'set_outputs',
              'set_parameter_names', 'set_output_names',
              'enable_sensitivities', 'fix_parameters', 'copy', 'simulate']
ENUM_TOTAL = sum(len(ENUM_KINDS) ** k for k in (1, 2, 3))     # 819
ENUM_ROUNDS = 6


def enum_sequence(j):
    """The j-th operation-kind sequence of length <= 3 (j < ENUM_TOTAL)."""
    n = len(ENUM_KINDS)
    for length in (1, 2, 3):
        if j < n ** length:
            seq = []
            for _ in range(length):
                seq.append(ENUM_KINDS[j % n])
                j //= n
            return seq
        j -= n ** length
    raise IndexError(j)


def generate(rng, index, tier):
    forced = None
    if tier == 'thorough' and index < ENUM_TOTAL * ENUM_ROUNDS:
        # thorough tier: every operation-kind sequence of length <= 3 is
        # certainly visited, on dosed library / generated models, plain and
        # behind a reduced wrapper (arguments stay seeded-random)
        forced = enum_sequence(index % ENUM_TOTAL)
    cls, src = gen_source(rng)
    if forced is not None:
        rnd = index // ENUM_TOTAL
        cls = 'pkpd'
        src = {'lib': 'pk1'} if rnd % 2 == 0 else {
            'gen': zoo.gen_sbml_spec(rng, n_comps=2)}
    info = model_info(src)
    reduced = rng.random() < 0.3
    if forced is not None:
        reduced = (index // ENUM_TOTAL) % 3 == 2
    recipe = {'h': 'm1', 'kind': 'mech', 'cls': cls, 'src': src,
              'reduced': reduced, 'config': []}
    dosable = []
    for s in info['states']:
        comp, var = s.split('.', 1)
        dosable.append((comp, var))
    if reduced and cls == 'pkpd' and rng.random() < 0.8:
        comp, var = rng.choice(dosable)
        recipe['config'].append(
            {'op': 'set_administration', 'compartment': comp,
             'amount_var': var, 'direct': rng.random() < 0.5})
    n_ops = rng.randint(2, 25 if tier == 'thorough' else 14)
    # swarm: a random subset of op kinds is enabled with random weights
    kinds = [k for k in OP_KINDS if rng.random() < 0.75]
    if not kinds:
        kinds = list(OP_KINDS)
    weights = {k: rng.uniform(0.3, 2.0) for k in kinds}
    faults_on = rng.random() < 0.5
    handles = ['m1']
    n_copies = 0
    fresh_names = iter('p%d' % i for i in range(1000))
    ops = []
    # the generator keeps a rough shadow of public names (only to choose
    # meaningful arguments; the interpreter never relies on it)
    shadow = {'m1': {'par': {}, 'out': {}, 'outputs': None,
                     'indirect': any(
                         o['op'] == 'set_administration' and not o['direct']
                         for o in recipe['config'])}}
    all_out = info['states'] + info['inter']
    if forced is not None:
        # start from a dosed model half of the time so that short sequences
        # meet a regimen
        if not reduced and (index // ENUM_TOTAL) % 2 == 1:
            comp, var = dosable[0]
            recipe['config'].append(
                {'op': 'set_administration', 'compartment': comp,
                 'amount_var': var, 'direct': True})
            recipe['config'].append(gen_regimen(rng))
        elif reduced and recipe['config']:
            recipe['config'].append(gen_regimen(rng))
    plan = forced if forced is not None else [None] * n_ops
    if forced is None and cls == 'pkpd' and not reduced and dosable \
            and rng.random() < 0.1:
        # route with a dose compartment, back to a direct route (the two
        # dose parameters go away again), then sensitivities for a subset:
        # positions in every name table must have followed
        comp, var = rng.choice(dosable)
        cands = info['states'] + info['consts']
        sel = rng.sample(cands, rng.randint(1, max(1, len(cands) - 1)))
        ops.extend([
            {'op': 'set_administration', 'on': 'm1', 'compartment': comp,
             'amount_var': var, 'direct': False},
            {'op': 'set_administration', 'on': 'm1', 'compartment': comp,
             'amount_var': var, 'direct': True},
            {'op': 'enable_sensitivities', 'on': 'm1', 'enabled': True,
             'names': [shadow['m1']['par'].get(c, c) for c in sel]},
            {'op': 'simulate', 'on': 'm1', 'theta': gen_theta(rng, info),
             'times': gen_times(rng)}])
        shadow['m1']['indirect'] = False
    if forced is None and cls == 'pkpd' and dosable and rng.random() < 0.12:
        # the same numeric regimen before and after a regimen given as a
        # protocol object (or another numeric one): the last call decides
        reg = gen_regimen(rng)
        while 'protocol' in reg:
            reg = gen_regimen(rng)
        other = gen_regimen(rng)
        if not reduced and not any(o_['op'] == 'set_administration'
                                   for o_ in recipe['config']):
            comp, var = rng.choice(dosable)
            ops.append({'op': 'set_administration', 'on': 'm1',
                        'compartment': comp, 'amount_var': var,
                        'direct': rng.random() < 0.6})
        ops.extend([dict(reg, on='m1'), dict(other, on='m1'),
                    dict(reg, on='m1'),
                    {'op': 'simulate', 'on': 'm1',
                     'theta': gen_theta(rng, info), 'times': gen_times(rng)}])
    by_comp = {}
    for comp_, var_ in dosable:
        by_comp.setdefault(comp_, []).append(var_)
    twins_ = [c_ for c_, v_ in by_comp.items() if len(v_) >= 2]
    if forced is None and cls == 'pkpd' and not reduced and twins_ \
            and rng.random() < 0.4:
        # two state variables in one compartment: the route is changed from
        # one to the other, everything else about it staying the same
        comp = rng.choice(twins_)
        v1, v2 = rng.sample(by_comp[comp], 2)
        direct = rng.random() < 0.5
        ops.extend([
            {'op': 'set_administration', 'on': 'm1', 'compartment': comp,
             'amount_var': v1, 'direct': direct},
            {'op': 'set_administration', 'on': 'm1', 'compartment': comp,
             'amount_var': v2, 'direct': direct},
            dict(gen_regimen(rng), on='m1'),
            {'op': 'simulate', 'on': 'm1', 'theta': gen_theta(rng, info),
             'times': gen_times(rng)}])
        shadow['m1']['indirect'] = not direct
    for fk in plan:
        k = fk or rng.choices(kinds, [weights[x] for x in kinds])[0]
        h = rng.choice(handles)
        sh = shadow[h]
        op = {'op': k, 'on': h}
        if k == 'set_administration':
            if cls != 'pkpd' or reduced:
                continue
            comp, var = rng.choice(dosable)
            op.update(compartment=comp, amount_var=var,
                      direct=rng.random() < 0.5)
            sh['indirect'] = not op['direct']
        elif k == 'set_dosing_regimen':
            if cls != 'pkpd':
                continue
            op.update({kk: vv for kk, vv in gen_regimen(rng).items()
                       if kk != 'op'})
        elif k == 'set_outputs':
            cands = list(all_out)
            if sh['indirect']:
                cands.append('dose.drug_amount')
            n = rng.randint(1, min(3, len(cands)))
            outs = [rng.choice(cands) for _ in range(n)]
            if rng.random() < 0.8:
                outs = list(dict.fromkeys(outs))
            # sometimes use public names
            outs = [sh['out'].get(o, o) if rng.random() < 0.5 else o
                    for o in outs]
            if len(set(outs)) != len(outs) and any(
                    o in sh['out'].values() for o in outs):
                outs = list(dict.fromkeys(outs))
            # avoid re-selecting an output whose rename was dropped
            outs = [o for o in outs if o not in sh.get('dropped', set())]
            if not outs:
                continue
            for myo in list(sh['out']):
                if myo not in outs and sh['out'][myo] not in outs:
                    sh.setdefault('dropped', set()).add(myo)
                    del sh['out'][myo]
            sh['outputs'] = outs
            op['outputs'] = outs
        elif k == 'set_parameter_names':
            cands = info['states'] + info['consts']
            if sh['indirect']:
                cands = cands + ['dose.absorption_rate']
            n = rng.randint(1, 2)
            names = {}
            for c in rng.sample(cands, min(n, len(cands))):
                cur = sh['par'].get(c, c)
                new = next(fresh_names)
                names[cur] = new
                if c.startswith('dose.'):
                    continue
                sh['par'][c] = new
            op['names'] = names
        elif k == 'set_output_names':
            cur_outs = sh['outputs'] or info['states']
            c = rng.choice(cur_outs)
            myo = c
            for a, b in sh['out'].items():
                if b == c:
                    myo = a
            new = 'o' + next(fresh_names)
            op['names'] = {sh['out'].get(myo, myo): new}
            sh['out'][myo] = new
        elif k == 'enable_sensitivities':
            op['enabled'] = rng.random() < 0.7
            if op['enabled'] and not reduced and rng.random() < 0.3:
                cands = info['states'] + info['consts']
                sel = rng.sample(cands, rng.randint(1, len(cands)))
                op['names'] = [sh['par'].get(c, c) for c in sel]
        elif k == 'fix_parameters':
            if not reduced:
                continue
            cands = info['states'] + info['consts'] + (
                ['dose.drug_amount', 'dose.absorption_rate']
                if any(o['op'] == 'set_administration' and not o['direct']
                       for o in recipe['config']) else [])
            vals = {}
            n_pick = rng.randint(1, min(3, len(cands)))
            everything = forced is None and rng.random() < 0.2
            if everything:
                n_pick = len(cands)       # everything, then release some
            for c in rng.sample(cands, n_pick):
                vals[sh['par'].get(c, c)] = (
                    None if rng.random() < 0.3 and not everything
                    else round(rng.uniform(0.2, 2.0), 3))
            op['values'] = vals
            if everything:
                if rng.random() < 0.6:
                    ops.append({'op': 'enable_sensitivities', 'on': h,
                                'enabled': True})
                ops.append(op)
                if rng.random() < 0.4:
                    # a rejected call in the all-fixed state
                    ops.append({'op': 'bad_call', 'on': h, 'how': rng.choice(
                        ['output', 'sens_name'])})
                    if rng.random() < 0.5:
                        continue
                op = {'op': 'fix_parameters', 'on': h, 'values': {
                    sh['par'].get(c, c): None for c in rng.sample(
                        cands, rng.randint(1, 2))}}
        elif k == 'copy':
            if n_copies >= 3:
                continue
            n_copies += 1
            new_h = '%sc%d' % (h, n_copies)
            op['as'] = new_h
            handles.append(new_h)
            shadow[new_h] = copy.deepcopy(sh)
        elif k == 'simulate':
            op['theta'] = gen_theta(rng, info)
            op['times'] = gen_times(rng)
            if faults_on and rng.random() < 0.2:
                op['fault'] = {'at_run': 0, 'kind': rng.choice(
                    ['fail', 'fail', 'nan'])}
        ops.append(op)
        if forced is None and rng.random() < 0.06:
            # an invalid call somewhere in the history, often followed by
            # something that rebuilds the simulator
            bad = {'op': 'bad_call', 'on': h, 'how': rng.choice(
                ['compartment', 'amount_var', 'output', 'sens_name'])}
            if dosable:
                bad['compartment'] = rng.choice(dosable)[0]
            elif bad['how'] == 'amount_var':
                bad['how'] = 'output'
            ops.append(bad)
            if rng.random() < 0.6:
                ops.append({'op': 'enable_sensitivities', 'on': h,
                            'enabled': True})
                ops.append({'op': 'simulate', 'on': h,
                            'theta': gen_theta(rng, info),
                            'times': gen_times(rng)})
    return {'property': PROP, 'recipes': [recipe], 'ops': ops,
            'probe': {'theta': gen_theta(rng, info), 'times': gen_times(rng)},
            'profile': {'kinds': sorted(kinds), 'faults': faults_on}}


def recipe_tag(scenario):
    r = scenario['recipes'][0]
    src = r['src'].get('lib') or 'gen%d%s' % (
        len(r['src']['gen']['comps']), 'mm' if r['src']['gen'].get('mm')
        else '')
    return '%s:%s:%s:%s' % (r['cls'], src, 'red' if r.get('reduced') else '',
                            ','.join(o['op'] for o in r.get('config', [])))


def op_tag(op):
    if op['op'] == 'set_administration':
        return ':d' if op.get('direct', True) else ':i'
    if op['op'] == 'enable_sensitivities':
        return ':on' if op.get('enabled') else ':off'
    if op['op'] == 'set_dosing_regimen':
        return ':p' if 'protocol' in op else ''
    return ':' + str(op.get('on', ''))
