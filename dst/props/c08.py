"""
C08 -- fixing parameters is exact substitution, reversible, order-independent.

Reference model: a dict ``index -> value`` over the subject's original
parameter list, plus a *twin*: the same subject built from the same recipe and
never fixed.  After every operation: names/counts equal the original names with
the fixed indices removed; each evaluation at the free values equals the
twin's at the full vector with the dict substituted; sensitivities equal the
twin's restricted to the free entries.
"""
import copy
import json

import numpy as np

from .. import zoo
from ..kernel import (Violation, call, close, identical, is_exc, short,
                      snapshot, snapshot_equal)

PROP = 'C08'
MUTATORS = {'fix', 'rename'}
OBSERVERS = {'eval'}
ALWAYS_OBSERVED = True
BUDGET = {'quick': {'runs': 3000, 'wall': 70},
          'thorough': {'runs': 150000, 'wall': 1500}}


# ---------------------------------------------------------------------------
# subjects
# ---------------------------------------------------------------------------
class Subject(object):
    """Adapter: how to build, fix, name and evaluate one kind of object."""
    kind = None
    evals = ()

    def __init__(self, recipe):
        self.recipe = recipe
        self.obj = self.build(reduced=True)
        self.twin = self.build(reduced=False)
        self.names = list(self.full_names(self.twin))

    # to override
    def build(self, reduced):
        raise NotImplementedError

    def full_names(self, twin):
        raise NotImplementedError

    def cur_names(self):
        raise NotImplementedError

    def n_parameters(self):
        return self.obj.n_parameters()

    def n_fixed(self):
        return self.obj.n_fixed_parameters()

    def fix(self, d):
        return self.obj.fix_parameters(d)

    def rename(self, ref, idx_to_new):
        raise SkipRename()


class SkipRename(Exception):
    pass


def _full(ref, x):
    """Full vector with the dict substituted."""
    v = [float(t) for t in x]
    for i, val in ref.items():
        v[i] = float(val)
    return np.array(v)


def _free(ref, x):
    vals = [t for i, t in enumerate(x) if i not in ref]
    if vals and all(isinstance(t, int) and not isinstance(t, bool)
                    for t in vals):
        # whole numbers stay integers (an integer array is a legal vector)
        return np.array(vals)
    return np.array([float(t) for t in vals])


class ErrorSubject(Subject):
    kind = 'error'
    evals = ('ll', 'pw', 's1', 'sample')

    def build(self, reduced):
        import chi
        em = zoo.build_error({'cls': self.recipe['cls']})
        return chi.ReducedErrorModel(em) if reduced else em

    def full_names(self, twin):
        return twin.get_parameter_names()

    def cur_names(self):
        return self.obj.get_parameter_names()

    def rename(self, ref, idx_to_new):
        names = list(self.names)
        for i, nm in idx_to_new.items():
            if int(i) not in ref and int(i) < len(names):
                names[int(i)] = nm
        free = [n for i, n in enumerate(names) if i not in ref]
        self.obj.set_parameter_names(free)
        self.names = names

    def evaluate(self, which, target, ref, op, full):
        x = _full(ref, op['x']) if full else _free(ref, op['x'])
        mo = np.array(op['model_output'], dtype=float)
        obs = np.array(op['obs'], dtype=float)
        if which == 'll':
            return target.compute_log_likelihood(x, mo, obs)
        if which == 'pw':
            return target.compute_pointwise_ll(x, mo, obs)
        if which == 's1':
            ms = np.array(op['model_sens'], dtype=float)
            return target.compute_sensitivities(x, mo, ms, obs)
        if which == 'sample':
            return target.sample(x, mo, op.get('n_samples', 3), op['seed'])

    def restrict(self, which, res, ref, op):
        if which != 's1' or is_exc(res):
            return res
        score, sens = res
        n_mech = np.array(op['model_sens']).shape[1]
        keep = list(range(n_mech)) + [
            n_mech + i for i in range(len(self.names)) if i not in ref]
        return score, np.asarray(sens)[keep]


class MechSubject(Subject):
    kind = 'mech'
    evals = ('sim', 'sim_s1')

    def build(self, reduced):
        import chi
        m = zoo.build_mech(dict(self.recipe['mech'], reduced=False))
        return chi.ReducedMechanisticModel(m) if reduced else m

    def full_names(self, twin):
        return twin.parameters()

    def cur_names(self):
        return self.obj.parameters()

    def rename(self, ref, idx_to_new):
        cur = list(self.names)
        d = {}
        for i, nm in idx_to_new.items():
            i = int(i)
            if i < len(cur):
                d[cur[i]] = nm
                cur[i] = nm
        self.obj.set_parameter_names(d)
        self.names = cur

    def evaluate(self, which, target, ref, op, full):
        x = _full(ref, op['x']) if full else _free(ref, op['x'])
        times = np.array(op['times'], dtype=float)
        if which == 'sim':
            target.enable_sensitivities(False)
            return target.simulate(x, times)
        if which == 'sim_s1':
            target.enable_sensitivities(True)
            return target.simulate(x, times)

    def restrict(self, which, res, ref, op):
        if which != 'sim_s1' or is_exc(res):
            return res
        out, sens = res
        keep = [i for i in range(len(self.names)) if i not in ref]
        return out, np.asarray(sens)[:, :, keep]


class PopSubject(Subject):
    kind = 'pop'
    evals = ('ll', 's1', 's1r', 'indiv', 'sample', 'nhier', 'special')

    def build(self, reduced):
        import chi
        pm = zoo.build_pop(self.recipe['pop'])
        # a population model is told how many individuals it models
        self.cur_k = self.recipe.get('n_ids', 1)
        pm.set_n_ids(self.cur_k)
        return chi.ReducedPopulationModel(pm) if reduced else pm

    def full_names(self, twin):
        return twin.get_parameter_names()

    def cur_names(self):
        return self.obj.get_parameter_names()

    def _cov(self, op):
        n_cov = zoo.pop_n_cov(self.recipe['pop'])
        if n_cov == 0:
            return {}
        return {'covariates': np.array(op['cov'], dtype=float)[
            :self._k(op), :n_cov]}

    def _k(self, op):
        if self.recipe['pop']['cls'] in ('G', 'LN', 'TG'):
            # a bare Gaussian-type model: the number of individuals it was
            # told is documented to be ignored, any number goes (a composite
            # sizes its buffers by it and must be told, as chi's own
            # consumers do)
            return max(1, min(int(op.get('k', len(op['eta']))),
                              len(op['eta'])))
        return min(getattr(self, 'cur_k', None) or len(op['eta']),
                   len(op['eta']))

    def _x(self, op):
        return op['x'][:len(self.names)]

    def _obs(self, ref, op):
        """Individual parameters consistent with pooled/heterogeneous dims."""
        eta = np.array(op['eta'], dtype=float)[:self._k(op)]
        full = _full(ref, self._x(op))
        return np.array(self.twin.compute_individual_parameters(
            full, eta, return_eta=True, **self._cov(op)))

    def evaluate(self, which, target, ref, op, full):
        x = _full(ref, self._x(op)) if full else _free(ref, self._x(op))
        kw = self._cov(op)
        k = self._k(op)
        if which == 'nhier':
            return list(target.n_hierarchical_parameters(k))
        if which == 'special':
            # (asked twice: the answer is a description, not a counter)
            target.get_special_dims()
            sd, n_pooled, n_hetero = target.get_special_dims()
            return [[[int(v) for v in s_[:4]] + [bool(s_[4])] for s_ in sd],
                    int(n_pooled), int(n_hetero)]
        if which == 'indiv':
            return np.array(target.compute_individual_parameters(
                x, np.array(op['eta'], dtype=float)[:k], **kw))
        obs = self._obs(ref, op)
        if which == 'll':
            return target.compute_log_likelihood(x, obs, **kw)
        if which == 's1':
            if full:
                kw = dict(kw)
                if not _is_cov(self.recipe['pop']):
                    kw['flattened'] = True
            return target.compute_sensitivities(x, obs, **kw)
        if which == 's1r':
            dl = np.array(op['dlogp'], dtype=float)[:k]
            return target.compute_sensitivities(
                x, obs, dlogp_dpsi=dl, reduce=True, **kw)
        if which == 'sample':
            kw2 = {}
            if kw:
                kw2['covariates'] = kw['covariates'][0]
            return target.sample(
                x, n_samples=k, seed=op['seed'], **kw2)

    def restrict(self, which, res, ref, op):
        if is_exc(res):
            return res
        free = [i for i in range(len(self.names)) if i not in ref]
        if which == 'nhier':
            return [res[0], len(free)]
        if which == 'special':
            # positions among the FREE parameters
            fixed = sorted(ref)
            sd = [[s_[0], s_[1],
                   s_[2] - sum(1 for i in fixed if i < s_[2]),
                   s_[3] - sum(1 for i in fixed if i < s_[3]), s_[4]]
                  for s_ in res[0]]
            return [sd, res[1], res[2]]
        if which == 's1':
            score, dpsi, dtheta = res
            return score, dpsi, np.asarray(dtheta)[free]
        if which == 's1r':
            score, ds = res
            n_top = len(self.names)
            ds = np.asarray(ds)
            n_bottom = len(ds) - n_top
            return score, np.hstack(
                (ds[:n_bottom], ds[n_bottom:][free]))
        return res


def _is_cov(pop):
    return pop['cls'] == 'COV'


class LogLikSubject(Subject):
    kind = 'loglik'
    evals = ('ll', 'pw', 's1')

    def build(self, reduced):
        r = self.recipe
        table = {'m': zoo.build_mech(dict(r['mech']))}
        errs = []
        for i, e in enumerate(r['errors']):
            table['e%d' % i] = zoo.build_error(e)
            errs.append('e%d' % i)
        return zoo.build_object(
            {'kind': 'loglik', 'mech': 'm', 'errors': errs, 'obs': r['obs'],
             'times': r['times']}, table)

    def full_names(self, twin):
        return twin.get_parameter_names()

    def cur_names(self):
        return self.obj.get_parameter_names()

    def n_fixed(self):
        return None

    def evaluate(self, which, target, ref, op, full):
        x = _full(ref, op['x']) if full else _free(ref, op['x'])
        if which == 'll':
            return target(x)
        if which == 'pw':
            return target.compute_pointwise_ll(x)
        if which == 's1':
            return target.evaluateS1(x)

    def restrict(self, which, res, ref, op):
        if which != 's1' or is_exc(res):
            return res
        score, sens = res
        free = [i for i in range(len(self.names)) if i not in ref]
        sens = np.asarray(sens)
        if not np.isfinite(score):
            return score, np.asarray(sens)[free] if len(sens) == len(
                self.names) else sens
        return score, sens[free]


class PredSubject(Subject):
    kind = 'pred'
    evals = ('sample', 'sample_df')

    def build(self, reduced):
        import chi
        r = self.recipe
        m = zoo.build_mech(dict(r['mech']))
        errs = [zoo.build_error(e) for e in r['errors']]
        return chi.PredictiveModel(m, errs)

    def full_names(self, twin):
        return twin.get_parameter_names()

    def cur_names(self):
        return self.obj.get_parameter_names()

    def n_fixed(self):
        return None

    def evaluate(self, which, target, ref, op, full):
        x = _full(ref, op['x']) if full else _free(ref, op['x'])
        return target.sample(
            x, list(op['times']), n_samples=op.get('n_samples', 2),
            seed=op['seed'], return_df=(which == 'sample_df'),
            include_regimen=(which == 'sample_df'))

    def restrict(self, which, res, ref, op):
        return res


class PopPredSubject(Subject):
    kind = 'poppred'
    evals = ('sample', 'sample_df')

    def build(self, reduced):
        import chi
        r = self.recipe
        m = zoo.build_mech(dict(r['mech']))
        errs = [zoo.build_error(e) for e in r['errors']]
        pm = chi.PredictiveModel(m, errs)
        pop = zoo.build_pop(r['pop'])
        return chi.PopulationPredictiveModel(pm, pop)

    def full_names(self, twin):
        return twin.get_parameter_names()

    def cur_names(self):
        return self.obj.get_parameter_names()

    def n_fixed(self):
        return None

    def evaluate(self, which, target, ref, op, full):
        x = _full(ref, op['x']) if full else _free(ref, op['x'])
        kw = {}
        n_cov = zoo.pop_n_cov(self.recipe['pop'])
        if n_cov:
            kw['covariates'] = np.array(op['cov'], dtype=float)[0, :n_cov]
        return target.sample(
            x, list(op['times']), n_samples=op.get('n_samples', 2),
            seed=op['seed'], return_df=(which == 'sample_df'), **kw)

    def restrict(self, which, res, ref, op):
        return res


class ControllerSubject(Subject):
    """ProblemModellingController.fix_parameters (individual and population
    case); evaluated through the log-likelihood of get_log_posterior()."""
    kind = 'controller'
    evals = ('ll', 's1')

    def build(self, reduced):
        import chi
        import pandas as pd
        r = self.recipe
        m = zoo.build_mech(dict(r['mech']))
        errs = [zoo.build_error(e) for e in r['errors']]
        ctrl = chi.ProblemModellingController(m, errs)
        outs = ctrl._mechanistic_model.outputs()
        rows = []
        for i in range(r['n_ids']):
            for j, o in enumerate(outs):
                ts = r['times'][(i + j) % len(r['times'])]
                vs = r['values'][(i + j) % len(r['values'])]
                for t_, v in zip(ts, vs):
                    rows.append({'ID': 'p%d' % i, 'Time': t_,
                                 'Observable': o, 'Value': v})
        df = pd.DataFrame(rows)
        if r.get('pop'):
            ctrl.set_population_model(zoo.build_pop(r['pop']))
        ctrl.set_data(df, dose_key=None, dose_duration_key=None)
        return ctrl

    def full_names(self, twin):
        return twin.get_parameter_names()

    def cur_names(self):
        return self.obj.get_parameter_names()

    def n_parameters(self):
        return self.obj.get_n_parameters()

    def n_fixed(self):
        return None

    def _ll(self, ctrl):
        ctrl.set_log_prior(zoo.build_prior(
            {'n': ctrl.get_n_parameters(), 'kind': 'lognormal'}))
        post = ctrl.get_log_posterior()
        return post.get_log_likelihood()

    def evaluate(self, which, target, ref, op, full):
        x = _full(ref, op['x']) if full else _free(ref, op['x'])
        ll = self._ll(target)
        if self.recipe.get('pop'):
            n_bottom = ll.n_parameters() - len(x)
            bottom = np.array([op['bottom'][i % len(op['bottom'])]
                               for i in range(n_bottom)])
            x = np.concatenate([bottom, x])
        if which == 'll':
            return ll(x)
        return ll.evaluateS1(x)

    def restrict(self, which, res, ref, op):
        if which != 's1' or is_exc(res):
            return res
        score, sens = res
        sens = np.asarray(sens)
        n_top = len(self.names)
        n_bottom = len(sens) - n_top if self.recipe.get('pop') else 0
        free = [i for i in range(n_top) if i not in ref]
        return score, np.hstack((sens[:n_bottom], sens[n_bottom:][free]))


SUBJECTS = {c.kind: c for c in (ControllerSubject, 
    ErrorSubject, MechSubject, PopSubject, LogLikSubject, PredSubject,
    PopPredSubject)}


# ---------------------------------------------------------------------------
# interpreter
# ---------------------------------------------------------------------------
def check_names(s, ref, step):
    want = [n for i, n in enumerate(s.names) if i not in ref]
    got = call(lambda: list(s.cur_names()))
    if is_exc(got) or [str(g) for g in got] != [str(w) for w in want]:
        raise Violation('twin.names', 'differs',
                        'fixed %s: names %s, expected %s' % (
                            sorted(ref), short(got), want), step)
    n = call(lambda: int(s.n_parameters()))
    if is_exc(n) or n != len(want):
        raise Violation('twin.n_parameters', 'differs',
                        'fixed %s: n_parameters %s, expected %d' % (
                            sorted(ref), short(n), len(want)), step)
    nf = call(s.n_fixed)
    if nf is not None and (is_exc(nf) or nf != len(ref)):
        raise Violation('twin.n_fixed_parameters', 'differs',
                        'fixed %s: n_fixed_parameters %s' % (
                            sorted(ref), short(nf)), step)


def do_eval(s, ref, op, world, step):
    which = op['kind']
    if which not in s.evals:
        return
    if s.kind == 'controller' and len(ref) >= len(s.names):
        return      # no free parameter: a posterior cannot be requested
    fault = op.get('fault')
    args_snap = snapshot({k: v for k, v in op.items()})
    world.begin_op(fault)
    a = call(s.evaluate, which, s.obj, ref, op, False)
    faulted = any('fault' in r for r in world.solver_runs)
    runs = list(world.solver_runs)
    world.end_op()
    was = world.faults_enabled
    world.faults_enabled = False
    b = call(s.evaluate, which, s.twin, ref, op, True)
    b = call(s.restrict, which, b, ref, op) if not is_exc(b) else b
    world.faults_enabled = was
    if faulted:
        world.probe('eval_with_solver_fault')
        ok = True
        if s.kind in ('loglik', 'controller') and which == 'll':
            ok = (not is_exc(a)) and a == -np.inf
            if not ok and not is_exc(a) and not is_exc(b) and np.isscalar(
                    b) and not np.isfinite(b) and not np.isfinite(a):
                # the point is outside the numerical range anyway (another
                # individual's term is nan without any fault): -inf + nan
                world.probe('fault_at_non_finite_point')
                ok = True
        elif s.kind == 'controller' and which == 's1':
            ok = (not is_exc(a)) and not np.isfinite(a[0])
        elif s.kind == 'loglik' and which == 's1':
            ok = (not is_exc(a)) and a[0] == -np.inf and len(a[1]) == len(
                _free(ref, op['x']))
        else:
            ok = is_exc(a) and a.type == 'SimulationError'
        if not ok:
            raise Violation(
                'fault.' + which, 'undocumented_failure_value',
                '%s %s under solver failure returned %s' % (
                    s.kind, which, short(a)), step)
        return
    tol = {}
    adaptive = any(r.get('exact') is False for r in runs)
    noisy = any(r.get('min_abs') is not None and r['min_abs'] < (
        1e-7 if adaptive else 1e-9) for r in runs)
    if adaptive:
        # the reduced model integrates a different (smaller) sensitivity
        # system, so the adaptive engine takes different steps
        tol = {'rtol': 1e-5, 'atol': 1e-8}
    if noisy and which in ('ll', 'pw', 's1'):
        # outputs at the solver's tolerance level: a log-scale error model
        # amplifies the legitimate 1e-12 differences without bound
        world.probe('noise_level_outputs_skipped')
        return
    if which in ('s1', 'sim_s1', 's1r'):
        tol = {'rtol': 1e-4 if adaptive else 1e-7, 'atol': 1e-10,
               'norm': True}
        # a non-finite score comes with meaningless (uninitialised)
        # sensitivities: only the score is compared then
        if (isinstance(a, tuple) and isinstance(b, tuple)
                and np.isscalar(a[0]) and np.isscalar(b[0])
                and not np.isfinite(a[0]) and not np.isfinite(b[0])):
            a, b = a[0], b[0]
    if which in ('sample', 'sample_df') and not is_exc(a) and not is_exc(b):
        same = identical(a, b)
    elif (which == 's1' and isinstance(a, tuple) and isinstance(b, tuple)
            and len(a) == 2 and len(b) == 2 and np.isscalar(a[0])
            and np.isscalar(b[0]) and np.isfinite(a[0])
            and np.isfinite(b[0])):
        # a gradient is a sum of terms of the size of the score: its
        # absolute accuracy scales with the score (a score of -3e6 with a
        # derivative of 1e-9 is a derivative of zero)
        gtol = dict(tol, atol=tol['atol'] * max(1.0, abs(a[0]), abs(b[0])))
        same = close(a[0], b[0], **tol) and close(a[1], b[1], **gtol)
    else:
        same = close(a, b, **tol)
    if not same:
        kind = 'values'
        if is_exc(a) != is_exc(b):
            kind = 'raises' if is_exc(a) else 'twin_raises'
        elif is_exc(a):
            kind = 'exception_type'
        raise Violation(
            'twin.' + which, kind,
            '%s fixed %s x %s:\n  reduced: %s\n  twin:    %s' % (
                s.kind, {i: ref[i] for i in sorted(ref)}, op['x'],
                short(a, 600) + (a.tb if is_exc(a) else ''),
                short(b, 600) + (b.tb if is_exc(b) else '')), step)
    if not is_exc(a):
        # (a non-finite score may come with an uninitialised gradient, which
        # is memory garbage and must not enter the event log)
        world.log('eval', which, _loggable(
            a[0] if isinstance(a, tuple) and np.isscalar(a[0])
            and not np.isfinite(a[0]) else a))


def _loggable(a):
    if isinstance(a, tuple):
        return [np.asarray(v) if not np.isscalar(v) else v for v in a]
    return a


def run(scenario, world):
    recipe = scenario['recipes'][0]
    s = SUBJECTS[recipe['kind']](recipe)
    ref = {}
    triples = []
    prev = 'init'
    n_orig = len(s.names)
    states = set()
    check_names(s, ref, -1)
    released_all = 0
    for step, op in enumerate(scenario['ops']):
        k = op['op']
        world.log('op', step, k)
        if k == 'fix':
            d = {}
            new = dict(ref)
            for i, v in op['set']:
                if i >= n_orig:
                    continue
                d[s.names[i]] = v
                if v is None:
                    new.pop(i, None)
                else:
                    new[i] = float(v)
            for nm, v in (op.get('unknown') or {}).items():
                if nm not in s.names:
                    d[nm] = v
            if op.get('as_pairs') == 'iter':
                d = iter(list(d.items()))    # one-shot iterable of pairs
            elif op.get('as_pairs'):
                d = list(d.items())
            r = call(s.fix, d)
            if is_exc(r):
                raise Violation('op.fix', 'raises', '%s fix(%s) raised %r\n%s'
                                % (s.kind, d, r, r.tb), step)
            if s.kind == 'controller':
                # documented: fixing parameters resets the log-prior (a prior
                # set for the previous free parameters must not survive)
                lp_ = call(s.obj.get_log_prior)
                if is_exc(lp_) or lp_ is not None:
                    raise Violation(
                        'fix.resets_prior', 'prior_kept',
                        'controller.fix_parameters(%s) left the log-prior %s '
                        'in place' % (d, short(lp_)), step)
            if ref and not new:
                world.probe('release_collapsed_mask_to_none')
            if any(i in ref and v is not None and ref[i] != float(v)
                   for i, v in op['set'] if i < n_orig):
                world.probe('refix_to_other_value')
            ref = new
        elif k == 'rename':
            try:
                r = call(s.rename, ref, {int(i): v for i, v in
                                         op['names'].items()})
            except SkipRename:
                continue
            if is_exc(r):
                if r.type == 'SkipRename':
                    continue
                raise Violation('op.rename', 'raises', '%s rename raised %r'
                                % (s.kind, r), step)
            world.probe('rename_between_fixes')
        elif k == 'set_n_ids':
            if s.kind != 'pop':
                continue
            old_names = list(s.names)
            if len(set(old_names)) != len(old_names):
                continue        # fixed parameters are re-applied by name
            r1 = call(s.obj.set_n_ids, op['n'])
            r2 = call(s.twin.set_n_ids, op['n'])
            if is_exc(r1) or is_exc(r2):
                if is_exc(r1) and not is_exc(r2):
                    raise Violation('op.set_n_ids', 'raises', '%r\n%s' % (
                        r1, r1.tb), step)
                continue
            new_names = [str(n_) for n_ in s.twin.get_parameter_names()]
            if len(set(new_names)) != len(new_names):
                continue
            # documented by the repair of ReducedPopulationModel.set_n_ids:
            # fixed parameters are re-applied by name
            ref = dict((new_names.index(old_names[i]), v)
                       for i, v in ref.items() if old_names[i] in new_names)
            s.names = new_names
            n_orig = len(new_names)
            s.cur_k = op['n']
            world.probe('n_ids_changed_with_fixed_parameters'
                        if ref else 'n_ids_changed')
        elif k == 'eval':
            do_eval(s, ref, op, world, step)
        triples.append((prev, k + ':' + str(op.get('kind', '')), s.kind))
        prev = k
        check_names(s, ref, step)
        states.add('%s|%d|%s' % (recipe_tag(scenario), n_orig,
                                 ','.join(map(str, sorted(ref)))))
    return {'triples': triples,
            'extra': {'fixed_sets_reached': sorted(states)}}


# ---------------------------------------------------------------------------
# generator
# ---------------------------------------------------------------------------
def _vals(rng, n, lo=0.2, hi=2.0):
    return [round(rng.uniform(lo, hi), 3) for _ in range(n)]


def gen_mech_recipe(rng, allow_nonlinear=True):
    r = rng.random()
    config = []
    if r < 0.3:
        cls, src = 'pkpd', {'lib': 'pk1'}
        dos = [('central', 'drug_amount')]
    elif r < 0.4 and allow_nonlinear:
        cls, src = 'sbml', {'lib': rng.choice(['tgi', 'tgi_rep'])}
        dos = []
    else:
        spec = zoo.gen_sbml_spec(
            rng, n_comps=rng.choice([1, 2, 2, 3]),
            nonlinear=allow_nonlinear and rng.random() < 0.1)
        cls, src = 'pkpd', {'gen': spec}
        dos = [(c['name'], 'd_%s_amount' % c['name']) for c in spec['comps']]
    if dos and rng.random() < 0.7:
        comp, var = rng.choice(dos)
        config.append({'op': 'set_administration', 'compartment': comp,
                       'amount_var': var, 'direct': rng.random() < 0.6})
        if rng.random() < 0.8:
            from .c11 import gen_regimen
            config.append(gen_regimen(rng))
    from .c11 import model_info
    info = model_info(src)
    outs = info['states'] + info['inter']
    if rng.random() < 0.6:
        n = rng.randint(1, min(3, len(outs)))
        config.append({'op': 'set_outputs',
                       'outputs': rng.sample(outs, n)})
        n_out = n
    else:
        n_out = len(info['states'])
    return {'cls': cls, 'src': src, 'config': config}, n_out


def gen_pop_recipe(rng, n_dim_total=None, depth=0, allow_cov=True):
    """Draws a population model recipe; returns recipe."""
    leaf = ['G', 'LN', 'TG', 'P', 'H']
    if n_dim_total is not None:
        if rng.random() < 0.15:
            # one bare model over all dimensions (no composite around it);
            # not a bare pooled / heterogeneous model: sampling individuals
            # from one is the known finding KF-C15-2 (n_ids, not n_samples,
            # columns are filled; the rest is uninitialised memory)
            leaf_ = gen_pop_leaf(rng, n_dim_total, allow_cov)
            if leaf_['cls'] not in ('P', 'H'):
                return leaf_
        # composed model with exactly n_dim_total dimensions
        subs = []
        left = n_dim_total
        while left > 0:
            nd = rng.randint(1, min(2, left))
            subs.append(gen_pop_leaf(rng, nd, allow_cov))
            left -= nd
        if len(subs) == 1 and rng.random() < 0.5:
            return subs[0]
        return {'cls': 'COMP', 'subs': subs}
    r = rng.random()
    if r < 0.45 or depth > 0:
        return gen_pop_leaf(rng, rng.randint(1, 3), allow_cov)
    n = rng.randint(2, 4)
    return {'cls': 'COMP', 'subs': [
        gen_pop_leaf(rng, rng.randint(1, 2), allow_cov) for _ in range(n)]}


def gen_pop_leaf(rng, nd, allow_cov=True, n_ids=None):
    k = rng.choice(['G', 'LN', 'TG', 'P', 'H', 'G', 'LN'])
    rec = {'cls': k, 'n_dim': nd}
    if k in ('G', 'LN'):
        rec['centered'] = rng.random() < 0.6
    if k == 'H' and n_ids:
        rec['n_ids'] = n_ids
    if allow_cov and k in ('G', 'LN') and rng.random() < 0.25:
        rec = {'cls': 'COV', 'of': rec, 'n_cov': rng.randint(1, 2)}
        if rng.random() < 0.5:
            pairs = [[p, d] for p in range(2) for d in range(nd)]
            rec['pop_params'] = rng.sample(pairs, rng.randint(1, len(pairs)))
    return rec


def set_n_ids_recipe(rec, n_ids):
    """Heterogeneous sub-models must be built for the right n_ids."""
    rec = copy.deepcopy(rec)
    if rec['cls'] == 'H':
        rec['n_ids'] = n_ids
    elif rec['cls'] in ('COV', 'RED'):
        rec['of'] = set_n_ids_recipe(rec['of'], n_ids)
    elif rec['cls'] == 'COMP':
        rec['subs'] = [set_n_ids_recipe(r, n_ids) for r in rec['subs']]
    return rec


def n_params_of(recipe):
    """Number of original parameters (built once, cheaply)."""
    s = SUBJECTS[recipe['kind']](recipe)
    return len(s.names), s


def generate(rng, index, tier):
    kinds = ['error', 'mech', 'pop', 'pop', 'loglik', 'loglik', 'pred',
             'poppred', 'controller']
    kind = kinds[index % len(kinds)] if rng.random() < 0.7 \
        else rng.choice(kinds)
    n_ids = rng.randint(1, 4)
    if kind == 'error':
        recipe = {'kind': 'error', 'cls': rng.choice(['G', 'M', 'CM', 'LN'])}
    elif kind == 'mech':
        mech, _ = gen_mech_recipe(rng)
        recipe = {'kind': 'mech', 'mech': mech}
    elif kind == 'pop':
        recipe = {'kind': 'pop', 'n_ids': n_ids, 'pop': set_n_ids_recipe(
            gen_pop_recipe(rng), n_ids)}
    else:
        mech, n_out = gen_mech_recipe(rng)
        errors = [{'cls': rng.choice(['G', 'M', 'CM', 'LN'])}
                  for _ in range(n_out)]
        recipe = {'kind': kind, 'mech': mech, 'errors': errors}
        if kind == 'loglik':
            grid = sorted(set(round(rng.uniform(0, 6), 1)
                              for _ in range(rng.randint(1, 6))))
            times, obs = [], []
            for _ in range(n_out):
                ts = sorted(rng.sample(grid, rng.randint(1, len(grid))))
                times.append(ts)
                obs.append(_vals(rng, len(ts), 0.1, 2.0))
            recipe['times'] = times
            recipe['obs'] = obs
    if kind == 'controller':
        grid = sorted(set(round(rng.uniform(0.2, 6), 1) for _ in range(4)))
        recipe['n_ids'] = rng.randint(1, 3)
        recipe['times'] = [sorted(rng.sample(grid, rng.randint(1, len(grid))))
                           for _ in range(3)]
        recipe['values'] = [_vals(rng, len(grid), 0.2, 2.0) for _ in range(3)]
        if rng.random() < 0.6:
            tmp = dict(recipe, kind='pred')
            n0, _ = n_params_of(tmp)
            from .c19 import _no_tg
            recipe['pop'] = set_n_ids_recipe(_no_tg(gen_pop_recipe(
                rng, n_dim_total=n0, allow_cov=False)), recipe['n_ids'])
    if kind == 'poppred':
        # population model over all predictive model parameters
        tmp = dict(recipe, kind='pred')
        n, _ = n_params_of(tmp)
        recipe['pop'] = set_n_ids_recipe(
            gen_pop_recipe(rng, n_dim_total=n), 1)
    n, subj = n_params_of(recipe)
    n_ops = rng.randint(2, 30 if tier == 'thorough' else 14)
    faults_on = rng.random() < 0.5 and kind in ('mech', 'loglik', 'pred',
                                                 'controller')
    ops = []
    fresh = iter('q%d' % i for i in range(1000))
    evals = list(subj.evals)
    p_eval = rng.uniform(0.3, 0.7)
    shadow_fixed = set()
    pending_release = None
    n_err_last = 0
    if kind in ('loglik', 'pred') and len(recipe['errors']) > 1:
        n_err_last = zoo.n_error_params(recipe['errors'][-1]['cls'])
    shared_cov = None
    has_hetero = kind == 'pop' and '"H"' in json.dumps(recipe['pop'])
    want_sens = False
    sens_evals = [e for e in evals if e in ('s1', 'sim_s1', 's1r')]
    for _ in range(n_ops):
        r = rng.random()
        if r < p_eval or (want_sens and sens_evals):
            ek = rng.choice(evals)
            if want_sens and sens_evals:
                # a sensitivity evaluation straight after the fix (a plain
                # evaluation in between would rebuild a stale solver)
                ek = rng.choice(sens_evals)
            want_sens = False
            op = {'op': 'eval', 'kind': ek,
                  'x': _vals(rng, n), 'seed': rng.randint(0, 10 ** 6)}
            if kind == 'error' and ek in ('sample', 'pw') \
                    and rng.random() < 0.25:
                # whole-number error parameters handed over as integers
                op['x'] = [rng.randint(1, 2) for _ in op['x']]
            if kind == 'error':
                nt = rng.randint(1, 5)
                op['model_output'] = _vals(rng, nt, 0.3, 3.0)
                op['obs'] = _vals(rng, nt, 0.3, 3.0)
                nm = rng.randint(1, 3)
                op['model_sens'] = [_vals(rng, nm, -1, 1) for _ in range(nt)]
                op['n_samples'] = rng.randint(1, 4)
            if kind == 'controller':
                op['bottom'] = _vals(rng, 11, 0.3, 1.5)
            if kind in ('mech', 'pred', 'poppred'):
                op['times'] = sorted(set(
                    round(rng.uniform(0, 6), 1)
                    for _ in range(rng.randint(1, 5))))
                if kind != 'mech':
                    rng.shuffle(op['times'])
                op['n_samples'] = rng.randint(1, 4)
            if kind in ('pop', 'poppred'):
                nd = zoo.pop_n_dim(recipe['pop'])
                ni = 5 if kind == 'pop' else 1
                if kind == 'pop':
                    op['x'] = _vals(rng, 60)
                op['eta'] = [_vals(rng, nd) for _ in range(ni)]
                op['k'] = rng.randint(1, ni)
                op['dlogp'] = [_vals(rng, nd, -1, 1) for _ in range(ni)]
                # covariates usually belong to the individuals, not to the
                # evaluation: mostly the same matrix for every evaluation
                if shared_cov is not None and len(shared_cov) == ni \
                        and rng.random() < 0.75:
                    op['cov'] = shared_cov
                else:
                    op['cov'] = [_vals(rng, 8, 0.0, 0.6) for _ in range(ni)]
                    if shared_cov is None:
                        shared_cov = op['cov']
                op['n_samples'] = ni if kind == 'pop' else rng.randint(1, 4)
                if ek in ('sample', 'indiv', 'sample_df') \
                        and rng.random() < 0.2:
                    # whole-number parameters handed over as integers (the
                    # free vector is an integer array, the fixed values are
                    # not whole numbers)
                    op['x'] = [rng.randint(1, 2) for _ in op['x']]
            if faults_on and rng.random() < 0.25:
                op['fault'] = {'at_run': 0, 'kind': 'fail'}
            ops.append(op)
        elif r < p_eval + 0.06 and kind == 'pop' and has_hetero:
            ops.append({'op': 'set_n_ids', 'n': rng.randint(1, 5)})
        elif r < p_eval + 0.08 and kind in ('error', 'mech', 'pop'):
            idx = rng.sample(range(n), rng.randint(1, min(2, n)))
            ops.append({'op': 'rename',
                        'names': {str(i): next(fresh) for i in idx}})
        else:
            mode = rng.random()
            cur_fixed = sorted(shadow_fixed)
            cur_free = [i for i in range(n) if i not in shadow_fixed]
            if mode < 0.25 and cur_fixed and cur_free:
                # swap of equal size in one call: release one, fix another
                a, b = rng.choice(cur_fixed), rng.choice(cur_free)
                shadow_fixed.discard(a)
                shadow_fixed.add(b)
                ops.append({'op': 'fix', 'set': [
                    [a, None], [b, round(rng.uniform(0.2, 2.0), 3)]]})
                want_sens = True
                continue
            if pending_release is not None:
                # a call that only releases (every value None)
                ops.append({'op': 'fix', 'set': [[pending_release, None]]})
                shadow_fixed.discard(pending_release)
                pending_release = None
                want_sens = rng.random() < 0.5
                continue
            if mode < 0.45 and kind in ('loglik', 'pred') and not \
                    shadow_fixed and n_err_last:
                # only one error parameter of the LAST output is fixed ...
                i = n - 1 - rng.randrange(n_err_last)
                ops.append({'op': 'fix', 'set': [
                    [i, round(rng.uniform(0.2, 2.0), 3)]]})
                shadow_fixed.add(i)
                pending_release = i          # ... and released on its own
                continue
            if mode < 0.1:
                idx = list(range(n))          # everything
            elif mode < 0.2 and kind in ('loglik', 'pred'):
                # all parameters of one sub-model
                idx = [i for i, nm in enumerate(subj.names)
                       if ('Sigma' in nm) == (rng.random() < 0.5)]
                idx = idx or [0]
            else:
                idx = rng.sample(range(n), rng.randint(1, min(4, n)))
            st = []
            for i in idx:
                st.append([i, None if rng.random() < 0.3
                           else round(rng.uniform(0.2, 2.0), 3)])
                if st[-1][1] is None:
                    shadow_fixed.discard(i)
                else:
                    shadow_fixed.add(i)
            want_sens = rng.random() < 0.5
            if rng.random() < 0.12 and kind in ('pop', 'poppred'):
                # the boundary value: everything this call fixes is fixed
                # at zero (a number like any other for fix_parameters).  Only
                # for population parameters: a volume or a sigma of zero
                # makes the ODE system / the likelihood singular, where the
                # reduced and the full sensitivity system legitimately fail
                # in different ways
                zero = rng.choice([0, 0.0])
                st = [[i_, v_ if v_ is None else zero] for i_, v_ in st]
            op = {'op': 'fix', 'set': st}
            if rng.random() < 0.1:
                op['unknown'] = {'no such parameter': 1.0}
            form = rng.random()
            if form < 0.08:
                op['as_pairs'] = True       # list of (name, value) pairs
            elif form < 0.2:
                op['as_pairs'] = 'iter'     # zip(...) / generator of pairs
            ops.append(op)
    return {'property': PROP, 'recipes': [recipe], 'ops': ops,
            'profile': {'kind': kind, 'faults': faults_on}}


def recipe_tag(scenario):
    r = scenario['recipes'][0]
    tag = r['kind']
    if 'pop' in r:
        tag += ':' + _pop_tag(r['pop'])
    if 'cls' in r:
        tag += ':' + str(r['cls'])
    return tag


def _pop_tag(p):
    if p['cls'] == 'COMP':
        return 'COMP(' + ','.join(_pop_tag(x) for x in p['subs']) + ')'
    if p['cls'] in ('COV', 'RED'):
        return p['cls'] + '(' + _pop_tag(p['of']) + ')'
    return p['cls'] + str(p.get('n_dim', 1)) + (
        'n' if p.get('centered') is False else '')


def op_tag(op):
    if op['op'] == 'eval':
        return ':' + op['kind']
    if op['op'] == 'fix':
        return ':%d%s' % (len(op['set']), 'r' if any(
            v is None for _, v in op['set']) else '')
    return ''
