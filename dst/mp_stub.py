"""
Seam S2: deterministic in-process replacement for ``multiprocessing`` (and
``time.sleep`` / ``sys`` / ``threadpoolctl``) *inside pints._evaluation only*.

Each simulated process is a real thread that runs only while it holds the
baton; the baton is passed at every Queue.put/get, Event.is_set/set, sleep,
start and join, and the next holder is chosen by a PRNG seeded from the
scenario among the runnable participants.  ``start()`` emulates fork: the
worker object graph is deep-copied (queues and events map to themselves) and
the child inherits a copy of the parent's process-global numpy / random
generator state; on every switch the outgoing participant's global generator
state is saved and the incoming one's restored.
"""
import contextlib
import copy
import queue as _queue
import random
import threading
import types

import numpy as np


class Deadlock(Exception):
    pass


class Kernel(object):
    def __init__(self, seed, world=None, max_steps=200000, policy=None):
        self.rng = random.Random(seed)
        self.world = world
        self.max_steps = max_steps
        self.steps = 0
        self.trace = []
        self.parts = []
        self.next_pid = 1
        self.policy = policy or {}
        main = Participant(self, 0)
        self.parts.append(main)
        self.current = main
        self.assign = {}          # pid -> task ids it pulled
        self.n_forks = 0
        self.error = None
        self.aborted = False

    def runnable(self):
        return [p for p in self.parts if p.alive and p.can_run()]

    def choose(self, runnable):
        # starvation policy: a starved pid is only chosen when nobody else
        # can run
        starve = self.policy.get('starve')
        if starve is not None:
            others = [p for p in runnable if p.pid != starve]
            if others and self.rng.random() < 0.9:
                runnable = others
        return self.rng.choice(runnable)

    def yield_(self, why=''):
        me = self.current
        self.steps += 1
        if self.steps > self.max_steps:
            raise Deadlock('step cap reached')
        runnable = self.runnable()
        if not runnable:
            raise Deadlock('no runnable participant (%s)' % why)
        nxt = self.choose(runnable)
        self.trace.append(nxt.pid)
        if self.world is not None:
            self.world.log('sched', self.steps, nxt.pid, why)
        if nxt is me:
            if me.killed:
                raise SystemExit
            return
        me.save()
        self.current = nxt
        nxt.sem.release()
        me.sem.acquire()
        if self.aborted:
            raise SystemExit
        me.restore()
        if me.killed:
            raise SystemExit

    def block_until(self, cond, why=''):
        me = self.current
        me.cond = cond
        try:
            while not cond():
                self.yield_(why)
        finally:
            me.cond = None


class Participant(object):
    def __init__(self, kernel, pid):
        self.kernel = kernel
        self.pid = pid
        self.sem = threading.Semaphore(0)
        self.alive = True
        self.killed = False
        self.cond = None
        self.np_state = None
        self.py_state = None
        self.exitcode = None

    def can_run(self):
        if self.killed:
            return True
        return self.cond is None or self.cond()

    def save(self):
        self.np_state = np.random.get_state()
        self.py_state = random.getstate()

    def restore(self):
        if self.np_state is not None:
            np.random.set_state(self.np_state)
        if self.py_state is not None:
            random.setstate(self.py_state)


KERNEL = None


class Queue(object):
    def __init__(self, *a, **kw):
        self.items = []

    def __deepcopy__(self, memo):
        return self

    def put(self, x, *a, **kw):
        self.items.append(copy.deepcopy(x))    # pickled across processes
        KERNEL.yield_('put')

    def get(self, block=True, timeout=None):
        k = KERNEL
        if not block or timeout is not None:
            k.yield_('get-nb')
            if not self.items:
                raise _queue.Empty
            return self._pop()
        k.block_until(lambda: bool(self.items), 'get')
        return self._pop()

    def _pop(self):
        item = self.items.pop(0)
        k = KERNEL
        if k.current.pid != 0 and isinstance(item, tuple) and len(item) == 3:
            k.assign.setdefault(k.current.pid, []).append(int(item[0]))
        return item

    def empty(self):
        return not self.items

    def close(self):
        pass

    def join_thread(self):
        pass

    def cancel_join_thread(self):
        pass


class Event(object):
    def __init__(self):
        self.flag = False

    def __deepcopy__(self, memo):
        return self

    def is_set(self):
        KERNEL.yield_('is_set')
        return self.flag

    def set(self):
        self.flag = True
        KERNEL.yield_('set')

    def clear(self):
        self.flag = False


class Process(object):
    def __init__(self, *a, **kw):
        self.daemon = False
        self._part = None
        self.pid = None

    def start(self):
        k = KERNEL
        pid = k.next_pid
        k.next_pid += 1
        k.n_forks += 1
        child = copy.deepcopy(self)           # fork: private copy of memory
        part = Participant(k, pid)
        part.np_state = np.random.get_state()  # inherited generator state
        part.py_state = random.getstate()
        self._part = part
        child._part = part
        self.pid = child.pid = pid
        k.parts.append(part)
        if k.world is not None:
            k.world.log('fork', pid)

        def body():
            part.sem.acquire()
            if k.aborted:
                part.alive = False
                return
            part.restore()
            if not part.killed:
                try:
                    child.run()
                    part.exitcode = 0
                except SystemExit:
                    part.exitcode = -15
                except BaseException as e:     # noqa
                    part.exitcode = 1
                    k.error = e
            else:
                part.exitcode = -15
            part.alive = False
            if k.aborted:
                return
            runnable = k.runnable()
            if not runnable:
                k.error = Deadlock('nobody runnable after exit of %d' % pid)
                # wake main so that the error surfaces
                runnable = [k.parts[0]]
            nxt = k.choose(runnable)
            k.trace.append(nxt.pid)
            k.steps += 1
            if k.world is not None:
                k.world.log('sched', k.steps, nxt.pid, 'exit')
            k.current = nxt
            nxt.sem.release()
        t = threading.Thread(target=body, daemon=True)
        part.thread = t
        t.start()
        k.yield_('start')

    def run(self):
        pass

    @property
    def exitcode(self):
        return None if self._part is None else self._part.exitcode

    def is_alive(self):
        return self._part is not None and self._part.alive

    def terminate(self):
        if self._part is not None and self._part.alive:
            self._part.killed = True
            self._part.cond = None

    kill = terminate

    def join(self, timeout=None):
        if self._part is not None:
            KERNEL.block_until(lambda: not self._part.alive, 'join')


def cpu_count():
    return 4


_PATCHED = [False]


def patch_pints():
    """Points pints._evaluation at the simulated primitives (once)."""
    if _PATCHED[0]:
        return
    import pints._evaluation as ev
    mp = types.SimpleNamespace(
        Process=Process, Queue=Queue, Event=Event, cpu_count=cpu_count)
    ev.multiprocessing = mp
    ev.time = types.SimpleNamespace(sleep=lambda s: KERNEL.yield_('sleep'))
    ev.sys = types.SimpleNamespace(stdout=None, stderr=None)

    @contextlib.contextmanager
    def threadpool_limits(*a, **kw):
        yield
    ev.threadpoolctl = types.SimpleNamespace(
        threadpool_limits=threadpool_limits)
    ev.gc = types.SimpleNamespace(collect=lambda: 0)
    ev._Worker.__bases__ = (Process,)
    # garbage-collection timing must never touch the scheduler
    ev.ParallelEvaluator.__del__ = lambda self: None
    _PATCHED[0] = True


def run(world, sched_seed, fn, policy=None, max_steps=200000):
    """
    Runs ``fn()`` as the main participant of a fresh simulated machine and
    reaps every simulated process afterwards.  Returns (result, kernel).
    """
    global KERNEL
    patch_pints()
    k = Kernel(sched_seed, world, max_steps=max_steps, policy=policy)
    prev = KERNEL
    KERNEL = k
    try:
        result = fn()
        # reap whatever is left (kill, then let everyone run to its end)
        for p in k.parts[1:]:
            if p.alive:
                p.killed = True
                p.cond = None
        guard = 0
        while any(p.alive for p in k.parts[1:]):
            guard += 1
            if guard > 10000:
                raise Deadlock('could not reap simulated processes')
            k.yield_('reap')
        if k.error is not None and isinstance(k.error, Deadlock):
            raise k.error
        return result, k
    except BaseException:
        # harness failure: release every parked thread so that none leaks
        k.aborted = True
        for p in k.parts[1:]:
            p.sem.release()
        raise
    finally:
        if world is not None:
            world.sched_steps += k.steps
        KERNEL = prev
