"""
Minimisation: ddmin over the operation list, keeping the same violation class
(oracle, mismatch); then removal of trailing ops after the failing step and
simple argument simplification hooks supplied by the property module.
"""
import copy

from . import kernel


def _fails_same(mod, scenario, sig, budget):
    if budget[0] <= 0:
        return False
    budget[0] -= 1
    res = kernel.execute(mod, scenario)
    return res['status'] == 'violation' and kernel.signature(res) == sig


def ddmin_ops(mod, scenario, sig, max_execs=400):
    budget = [max_execs]
    ops = list(scenario['ops'])

    def test(sub):
        sc = dict(scenario, ops=sub)
        return _fails_same(mod, sc, sig, budget)

    # cut everything after the failing step first
    res = kernel.execute(mod, scenario)
    if res.get('step') is not None and res['step'] >= 0:
        cut = ops[:res['step'] + 1]
        if len(cut) < len(ops) and test(cut):
            ops = cut
    n = 2
    while len(ops) >= 1 and budget[0] > 0:
        chunk = max(1, len(ops) // n)
        subsets = [ops[i:i + chunk] for i in range(0, len(ops), chunk)]
        reduced = False
        # try complements (remove one chunk)
        for i in range(len(subsets)):
            comp = [o for j, s in enumerate(subsets) if j != i for o in s]
            if test(comp):
                ops = comp
                n = max(n - 1, 2)
                reduced = True
                break
        if not reduced:
            if chunk == 1:
                break
            n = min(len(ops), n * 2)
    out = dict(scenario, ops=ops)
    # property-specific argument simplification
    simp = getattr(mod, 'simplify', None)
    if simp is not None:
        progress = True
        while progress and budget[0] > 0:
            progress = False
            for cand in simp(copy.deepcopy(out)):
                if budget[0] <= 0:
                    break
                if _fails_same(mod, cand, sig, budget):
                    out = cand
                    progress = True
                    break
    return out
