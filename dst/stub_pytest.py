"""Runs chi's own test-suite with the solver stand-in installed (fidelity)."""
import sys
import warnings


def main(argv):
    warnings.filterwarnings('ignore')
    from dst import solver_stub
    solver_stub.install()
    import pytest
    return pytest.main(
        ['-q', '-p', 'no:cacheprovider', '-p', 'no:xdist', '--timeout=900',
         '--no-header', '-rf', '--tb=line'] + argv)


if __name__ == '__main__':
    sys.exit(main(sys.argv[1:]))
