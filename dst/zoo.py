"""
Recipe builders: how to create chi objects from nothing, from JSON recipes.

Every recipe is a plain dict; building is a pure function of the recipe (the
generated SBML text is a function of the spec; the file lives in a per-process
temporary directory that is removed at exit).
"""
import atexit
import hashlib
import os
import shutil
import tempfile

import numpy as np

_TMP = None
_SBML_FILES = {}


def _tmpdir():
    global _TMP
    if _TMP is None or not os.path.isdir(_TMP) or _TMP_PID[0] != os.getpid():
        _TMP = tempfile.mkdtemp(prefix='dst-sbml-')
        _TMP_PID[0] = os.getpid()
        _SBML_FILES.clear()
        atexit.register(shutil.rmtree, _TMP, True)
    return _TMP


_TMP_PID = [None]


def cleanup():
    """Removes this process' scratch directory (pool workers are left with
    os._exit, so atexit does not run there: the driver calls this)."""
    global _TMP
    if _TMP is not None and _TMP_PID[0] == os.getpid():
        shutil.rmtree(_TMP, True)
    _TMP = None
    _SBML_FILES.clear()


# ---------------------------------------------------------------------------
# SBML generation
# ---------------------------------------------------------------------------
def sbml_text(spec):
    """
    spec = {'comps': [{'name', 'size', 'init'}...],
            'transfers': [[from, to, value], ...],
            'elims': [[comp, value], ...],
            'mm': [[comp, vmax, km], ...]   (optional, makes it non-linear)
            'time': 'day'}
    Species of compartment X has id ``d_X`` so chi sees the variables
    ``X.d_X_amount`` (state) and ``X.d_X_concentration`` (intermediate).
    """
    comps = spec['comps']
    out = []
    a = out.append
    a('<?xml version="1.0" encoding="UTF-8"?>')
    a('<sbml xmlns="http://www.sbml.org/sbml/level3/version2/core" '
      'level="3" version="2">')
    a('  <model id="gen" timeUnits="day">')
    a('    <listOfUnitDefinitions><unitDefinition id="day"><listOfUnits>'
      '<unit kind="second" exponent="1" scale="0" multiplier="86400"/>'
      '</listOfUnits></unitDefinition></listOfUnitDefinitions>')
    a('    <listOfCompartments>')
    for c in comps:
        a('      <compartment id="%s" name="%s" size="%r" constant="true"/>'
          % (c['name'], c['name'], float(c['size'])))
    a('    </listOfCompartments>')
    a('    <listOfSpecies>')
    for c in comps:
        a('      <species id="d_%s" name="d_%s" compartment="%s" '
          'initialAmount="%r" hasOnlySubstanceUnits="false" '
          'boundaryCondition="false" constant="false"/>'
          % (c['name'], c['name'], c['name'], float(c['init'])))
    for (c, v, init) in spec.get('metab', []):
        # a second species (a metabolite) in the same compartment
        a('      <species id="m_%s" name="m_%s" compartment="%s" '
          'initialAmount="%r" hasOnlySubstanceUnits="false" '
          'boundaryCondition="false" constant="false"/>'
          % (c, c, c, float(init)))
    a('    </listOfSpecies>')
    a('    <listOfParameters>')
    for (f, t, v) in spec.get('transfers', []):
        a('      <parameter id="k_%s_%s" value="%r" constant="true"/>'
          % (f, t, float(v)))
    for (c, v) in spec.get('elims', []):
        a('      <parameter id="ke_%s" value="%r" constant="true"/>'
          % (c, float(v)))
    for (c, v, init) in spec.get('metab', []):
        a('      <parameter id="kmet_%s" value="%r" constant="true"/>'
          % (c, float(v)))
    for (c, vmax, km) in spec.get('mm', []):
        a('      <parameter id="vmax_%s" value="%r" constant="true"/>'
          % (c, float(vmax)))
        a('      <parameter id="km_%s" value="%r" constant="true"/>'
          % (c, float(km)))
    a('    </listOfParameters>')
    a('    <listOfReactions>')
    mathml = 'xmlns="http://www.w3.org/1998/Math/MathML"'
    for (f, t, v) in spec.get('transfers', []):
        a('      <reaction id="r_%s_%s" reversible="false">' % (f, t))
        a('        <listOfReactants><speciesReference species="d_%s" '
          'constant="true"/></listOfReactants>' % f)
        a('        <listOfProducts><speciesReference species="d_%s" '
          'constant="true"/></listOfProducts>' % t)
        a('        <kineticLaw><math %s><apply><times/><ci>k_%s_%s</ci>'
          '<ci>%s</ci><ci>d_%s</ci></apply></math></kineticLaw>'
          % (mathml, f, t, f, f))
        a('      </reaction>')
    for (c, v) in spec.get('elims', []):
        a('      <reaction id="re_%s" reversible="false">' % c)
        a('        <listOfReactants><speciesReference species="d_%s" '
          'constant="true"/></listOfReactants>' % c)
        a('        <kineticLaw><math %s><apply><times/><ci>ke_%s</ci>'
          '<ci>%s</ci><ci>d_%s</ci></apply></math></kineticLaw>'
          % (mathml, c, c, c))
        a('      </reaction>')
    for (c, v, init) in spec.get('metab', []):
        a('      <reaction id="rmet_%s" reversible="false">' % c)
        a('        <listOfReactants><speciesReference species="d_%s" '
          'constant="true"/></listOfReactants>' % c)
        a('        <listOfProducts><speciesReference species="m_%s" '
          'constant="true"/></listOfProducts>' % c)
        a('        <kineticLaw><math %s><apply><times/><ci>kmet_%s</ci>'
          '<ci>%s</ci><ci>d_%s</ci></apply></math></kineticLaw>'
          % (mathml, c, c, c))
        a('      </reaction>')
    for (c, vmax, km) in spec.get('mm', []):
        a('      <reaction id="rm_%s" reversible="false">' % c)
        a('        <listOfReactants><speciesReference species="d_%s" '
          'constant="true"/></listOfReactants>' % c)
        a('        <kineticLaw><math %s><apply><divide/><apply><times/>'
          '<ci>vmax_%s</ci><ci>%s</ci><ci>d_%s</ci></apply><apply><plus/>'
          '<ci>km_%s</ci><apply><times/><ci>%s</ci><ci>d_%s</ci></apply>'
          '</apply></apply></math></kineticLaw>'
          % (mathml, c, c, c, c, c, c))
        a('      </reaction>')
    a('    </listOfReactions>')
    a('  </model>')
    a('</sbml>')
    return '\n'.join(out)


def sbml_file(spec):
    text = sbml_text(spec)
    key = hashlib.sha256(text.encode()).hexdigest()[:20]
    d = _tmpdir()
    path = _SBML_FILES.get(key)
    if path is None or not os.path.exists(path):
        path = os.path.join(d, 'gen_%s.xml' % key)
        with open(path, 'w') as f:
            f.write(text)
        _SBML_FILES[key] = path
    return path


COMP_NAMES = ['zeta', 'alpha', 'mid', 'beta', 'yota']


def gen_sbml_spec(rng, n_comps=None, nonlinear=False):
    """Draws a compartment model; declaration order != alphabetical order."""
    if n_comps is None:
        n_comps = rng.choice([1, 2, 2, 3, 3, 4])
    names = COMP_NAMES[:]
    rng.shuffle(names)
    names = names[:n_comps]
    comps = [{'name': nm, 'size': round(rng.uniform(0.5, 3.0), 2),
              'init': round(rng.uniform(0.0, 2.0), 2)} for nm in names]
    transfers = []
    for i in range(n_comps - 1):
        transfers.append(
            [names[i], names[i + 1], round(rng.uniform(0.1, 1.0), 2)])
        if rng.random() < 0.5:
            transfers.append(
                [names[i + 1], names[i], round(rng.uniform(0.1, 1.0), 2)])
    elims = [[names[-1], round(rng.uniform(0.1, 1.0), 2)]]
    if n_comps > 1 and rng.random() < 0.3:
        elims.append([names[0], round(rng.uniform(0.1, 1.0), 2)])
    spec = {'comps': comps, 'transfers': transfers, 'elims': elims}
    if nonlinear:
        spec['mm'] = [[names[0], round(rng.uniform(0.2, 1.0), 2),
                       round(rng.uniform(0.5, 2.0), 2)]]
    if rng.random() < 0.25:
        # parent drug and metabolite share a compartment: two state
        # variables an administration can be directed at
        spec['metab'] = [[rng.choice(names), round(rng.uniform(0.1, 0.8), 2),
                          round(rng.uniform(0.0, 1.0), 2)]]
    return spec


LIB = {
    'pk1': ('pkpd', 'pk_one_comp.xml'),
    'full': ('pkpd', 'temporary_full_pkpd_model.xml'),
    'tgi': ('sbml', 'tgi_Koch_2009.xml'),
    'tgi_rep': ('sbml', 'tgi_Koch_2009_reparametrised.xml'),
}


def model_path(src):
    import chi.library
    if 'lib' in src:
        base = os.path.dirname(os.path.abspath(chi.library.__file__))
        return os.path.join(base, 'model_library', LIB[src['lib']][1])
    return sbml_file(src['gen'])


def build_mech(recipe):
    """
    {'cls': 'pkpd'|'sbml', 'src': {'lib': key} | {'gen': spec},
     'config': [mech ops], 'reduced': bool, 'fix': {name: value}}
    """
    import chi
    path = None if 'toy' in recipe['src'] else model_path(recipe['src'])
    cls = chi.PKPDModel if recipe.get('cls', 'pkpd') == 'pkpd' \
        else chi.SBMLModel
    if 'toy' in recipe['src']:
        m = toy_mech(recipe['src']['toy']['n_params'],
                     recipe['src']['toy']['n_outputs'])
    else:
        m = cls(path)
    for op in recipe.get('config', []):
        if op['op'] == 'copy':
            m = m.copy()
        else:
            apply_mech_op(m, op)
    if recipe.get('reduced'):
        m = chi.ReducedMechanisticModel(m)
        if recipe.get('fix'):
            m.fix_parameters(dict(recipe['fix']))
    return m


def make_protocol(events):
    import myokit
    p = myokit.Protocol()
    for (level, start, duration, period, multiplier) in events:
        p.schedule(level, start, duration, period, multiplier)
    return p


def apply_mech_op(m, op):
    """Applies one configuration operation to a mechanistic model."""
    k = op['op']
    if k == 'set_administration':
        return m.set_administration(
            op['compartment'], amount_var=op.get('amount_var', 'drug_amount'),
            direct=op.get('direct', True))
    if k == 'set_dosing_regimen':
        if 'protocol' in op:
            return m.set_dosing_regimen(make_protocol(op['protocol']))
        return m.set_dosing_regimen(
            op['dose'], start=op.get('start', 0),
            duration=op.get('duration', 0.01), period=op.get('period'),
            num=op.get('num'))
    # The containers handed over are the caller's: he goes on using them
    # (here: scribbles over them straight after the call).  The model must
    # have taken what it needs.
    if k == 'set_outputs':
        arg = list(op['outputs'])
        try:
            return m.set_outputs(arg)
        finally:
            arg.reverse()
            arg.append('no.such_output')
    if k == 'set_parameter_names':
        arg = dict(op['names'])
        try:
            return m.set_parameter_names(arg)
        finally:
            arg.clear()
    if k == 'set_output_names':
        arg = dict(op['names'])
        try:
            return m.set_output_names(arg)
        finally:
            arg.clear()
    if k == 'enable_sensitivities':
        if op.get('names') is not None:
            arg = list(op['names'])
            try:
                return m.enable_sensitivities(op['enabled'], arg)
            finally:
                arg.reverse()
                arg.append('no such parameter')
        return m.enable_sensitivities(op['enabled'])
    if k == 'fix_parameters':
        arg = dict(op['values'])
        try:
            return m.fix_parameters(arg)
        finally:
            arg.clear()
    raise ValueError('unknown mech op ' + str(k))


# ---------------------------------------------------------------------------
# Error models
# ---------------------------------------------------------------------------
ERROR_CLASSES = {
    'G': 'GaussianErrorModel',
    'M': 'MultiplicativeGaussianErrorModel',
    'CM': 'ConstantAndMultiplicativeGaussianErrorModel',
    'LN': 'LogNormalErrorModel',
}


def build_error(recipe):
    """{'cls': 'G'|'M'|'CM'|'LN', 'reduced': bool, 'fix': {...}}"""
    import chi
    em = getattr(chi, ERROR_CLASSES[recipe['cls']])()
    if recipe.get('names'):
        em.set_parameter_names(list(recipe['names']))
    if recipe.get('reduced'):
        em = chi.ReducedErrorModel(em)
        if recipe.get('fix'):
            em.fix_parameters(dict(recipe['fix']))
    return em


def n_error_params(cls):
    return 2 if cls == 'CM' else 1


# ---------------------------------------------------------------------------
# Population models
# ---------------------------------------------------------------------------
def build_pop(recipe):
    """
    {'cls': 'G'|'LN'|'TG'|'P'|'H', 'n_dim', 'centered', 'dim_names', 'n_ids'}
    {'cls': 'COV', 'of': recipe, 'n_cov': int, 'pop_params': [[i, j]...]}
    {'cls': 'COMP', 'subs': [recipes]}
    {'cls': 'RED', 'of': recipe, 'fix': {...}}
    """
    import chi
    k = recipe['cls']
    nd = recipe.get('n_dim', 1)
    dn = recipe.get('dim_names')
    if k == 'G':
        return chi.GaussianModel(
            n_dim=nd, dim_names=dn, centered=recipe.get('centered', True))
    if k == 'LN':
        return chi.LogNormalModel(
            n_dim=nd, dim_names=dn, centered=recipe.get('centered', True))
    if k == 'TG':
        return chi.TruncatedGaussianModel(n_dim=nd, dim_names=dn)
    if k == 'P':
        return chi.PooledModel(n_dim=nd, dim_names=dn)
    if k == 'H':
        return chi.HeterogeneousModel(
            n_dim=nd, dim_names=dn, n_ids=recipe.get('n_ids', 1))
    if k == 'COV':
        inner = build_pop(recipe['of'])
        cm = chi.LinearCovariateModel(n_cov=recipe.get('n_cov', 1))
        pm = chi.CovariatePopulationModel(inner, cm)
        if recipe.get('pop_params') is not None:
            pm.set_population_parameters(
                [tuple(x) for x in recipe['pop_params']])
        return pm
    if k == 'COMP':
        return chi.ComposedPopulationModel(
            [build_pop(r) for r in recipe['subs']])
    if k == 'RED':
        pm = chi.ReducedPopulationModel(build_pop(recipe['of']))
        if recipe.get('fix'):
            pm.fix_parameters(dict(recipe['fix']))
        return pm
    raise ValueError('unknown population model ' + str(k))


def pop_n_dim(recipe):
    k = recipe['cls']
    if k in ('COV', 'RED'):
        return pop_n_dim(recipe['of'])
    if k == 'COMP':
        return sum(pop_n_dim(r) for r in recipe['subs'])
    return recipe.get('n_dim', 1)


def pop_n_cov(recipe):
    k = recipe['cls']
    if k == 'COV':
        return recipe.get('n_cov', 1)
    if k == 'RED':
        return pop_n_cov(recipe['of'])
    if k == 'COMP':
        return sum(pop_n_cov(r) for r in recipe['subs'])
    return 0


# ---------------------------------------------------------------------------
# Priors
# ---------------------------------------------------------------------------
def build_prior(recipe):
    """{'n': int, 'kind': 'lognormal'|'gaussian'|'uniform', 'a', 'b'}"""
    import pints
    n = recipe['n']
    kind = recipe.get('kind', 'lognormal')
    a, b = recipe.get('a', 0.0), recipe.get('b', 0.4)
    ps = []
    for i in range(n):
        if kind == 'lognormal':
            ps.append(pints.LogNormalLogPrior(a, b))
        elif kind == 'gaussian':
            ps.append(pints.GaussianLogPrior(a, b))
        else:
            ps.append(pints.UniformLogPrior(a, b))
    if n == 1:
        return ps[0]
    return pints.ComposedLogPrior(*ps)


# ---------------------------------------------------------------------------
# Generic object table
# ---------------------------------------------------------------------------
def build_object(recipe, table):
    """
    Builds one object; ``table`` maps handles to objects built earlier (for
    references).  Kinds: mech, error, pop, loglik, logpost, hier, hierpost,
    pred, poppred, prior.
    """
    import chi
    kind = recipe['kind']
    if kind == 'mech':
        return build_mech(recipe)
    if kind == 'error':
        return build_error(recipe)
    if kind == 'pop':
        return build_pop(recipe['pop'])
    if kind == 'prior':
        return build_prior(recipe)
    if kind == 'loglik':
        mech = table[recipe['mech']]
        errs = [table[h] for h in recipe['errors']]
        ll = chi.LogLikelihood(
            mech, errs, [list(o) for o in recipe['obs']],
            [list(t) for t in recipe['times']],
            outputs=recipe.get('outputs'))
        if recipe.get('id') is not None:
            ll.set_id(recipe['id'])
        if recipe.get('fix'):
            ll.fix_parameters(dict(recipe['fix']))
        return ll
    if kind == 'logpost':
        ll = table[recipe['ll']]
        return chi.LogPosterior(
            ll, build_prior(dict(recipe['prior'], n=ll.n_parameters())))
    if kind == 'hier':
        lls = [table[h] for h in recipe['lls']]
        cov = recipe.get('covariates')
        return chi.HierarchicalLogLikelihood(
            lls, table[recipe['pop']],
            covariates=None if cov is None else np.array(cov, dtype=float))
    if kind == 'hierpost':
        hl = table[recipe['hl']]
        n_top = hl.n_parameters(exclude_bottom_level=True)
        return chi.HierarchicalLogPosterior(
            hl, build_prior(dict(recipe['prior'], n=n_top)))
    if kind == 'pred':
        mech = table[recipe['mech']]
        errs = [table[h] for h in recipe['errors']]
        return chi.PredictiveModel(mech, errs, outputs=recipe.get('outputs'))
    if kind == 'poppred':
        return chi.PopulationPredictiveModel(
            table[recipe['pred']], table[recipe['pop']])
    raise ValueError('unknown recipe kind ' + str(kind))


def build_all(recipes):
    """recipes: list of dicts with handle 'h'.  Returns handle -> object."""
    table = {}
    for r in recipes:
        table[r['h']] = build_object(r, table)
    return table


# ---------------------------------------------------------------------------
# Toy mechanistic model (any number of parameters and outputs, no solver)
# ---------------------------------------------------------------------------
_TOY = {}


def toy_mech(n_params, n_outputs):
    """
    Hand-written chi.MechanisticModel (as chi's own tests use): output j at
    time t is sum_k a_jk p_k exp(-0.1 (k+1) t); linear in the parameters.
    """
    import chi
    cls = _TOY.get('cls')
    if cls is None:
        class ToyMechanisticModel(chi.MechanisticModel):
            def __init__(self, n_params, n_outputs):
                super(ToyMechanisticModel, self).__init__()
                self._n_p = int(n_params)
                self._n_o = int(n_outputs)
                self._sens = None
                self._names = ['theta %d' % (k + 1) for k in range(self._n_p)]
                self._outs = ['y %d' % (j + 1) for j in range(self._n_o)]
                self._a = np.array(
                    [[1.0 + 0.3 * ((j + 2 * k) % 5) for k in range(self._n_p)]
                     for j in range(self._n_o)])

            def enable_sensitivities(self, enabled, parameter_names=None):
                if not enabled:
                    self._sens = None
                    return
                if parameter_names is None:
                    self._sens = list(range(self._n_p))
                else:
                    sel = [k for k, n in enumerate(self._names)
                           if n in parameter_names]
                    if not sel:
                        raise ValueError('None of the parameters could be '
                                         'identified.')
                    self._sens = sel

            def has_sensitivities(self):
                return self._sens is not None

            def n_outputs(self):
                return self._n_o

            def n_parameters(self):
                return self._n_p

            def outputs(self):
                return list(self._outs)

            def parameters(self):
                return list(self._names)

            def set_parameter_names(self, names):
                self._names = [names.get(n, n) for n in self._names]

            def simulate(self, parameters, times):
                p = np.asarray(parameters, dtype=float)
                t = np.asarray(times, dtype=float)
                if len(p) != self._n_p:
                    raise ValueError('wrong number of parameters')
                decay = np.exp(-0.1 * np.outer(
                    np.arange(1, self._n_p + 1), t))      # (k, t)
                out = (self._a * p[np.newaxis, :]) @ decay   # (j, t)
                if self._sens is None:
                    return out
                sens = np.empty((len(t), self._n_o, len(self._sens)))
                for c, k in enumerate(self._sens):
                    sens[:, :, c] = np.outer(decay[k], self._a[:, k])
                return out, sens
        cls = ToyMechanisticModel
        _TOY['cls'] = cls
    return cls(n_params, n_outputs)
