"""
The world: one per simulated run.  Owns the PRNG, the event log, the fault
schedule for the solver seam and the coverage counters.
"""
import hashlib
import random

MASK = (1 << 64) - 1


def splitmix64(x):
    x = (x + 0x9E3779B97F4A7C15) & MASK
    z = x
    z = ((z ^ (z >> 30)) * 0xBF58476D1CE4E5B9) & MASK
    z = ((z ^ (z >> 27)) * 0x94D049BB133111EB) & MASK
    return z ^ (z >> 31)


def derive_seed(verif_seed, prop, index):
    h = int.from_bytes(hashlib.sha256(prop.encode()).digest()[:8], 'big')
    x = splitmix64((int(verif_seed) & MASK) ^ h)
    x = splitmix64(x ^ (int(index) & MASK))
    return x


CURRENT = None


def fhex(x):
    """Stable text of a number / array / nested structure for digests."""
    import numpy as np
    if x is None:
        return 'None'
    if isinstance(x, (bool, np.bool_)):
        return 'T' if x else 'F'
    if isinstance(x, (int, np.integer)):
        return 'i%d' % int(x)
    if isinstance(x, (float, np.floating)):
        return float(x).hex()
    if isinstance(x, str):
        return 's' + x
    if isinstance(x, np.ndarray):
        if x.dtype == object:
            return '[' + ','.join(fhex(v) for v in x.ravel().tolist()) + ']'
        return 'a%s:' % (x.shape,) + ','.join(
            fhex(v) for v in x.ravel().tolist())
    if isinstance(x, (list, tuple)):
        return '[' + ','.join(fhex(v) for v in x) + ']'
    if isinstance(x, dict):
        return '{' + ','.join(
            fhex(k) + ':' + fhex(x[k]) for k in sorted(x, key=str)) + '}'
    try:
        import pandas as pd
        if isinstance(x, pd.DataFrame):
            return 'df' + fhex(list(map(str, x.columns))) + fhex(
                [x[c].tolist() for c in x.columns])
    except Exception:
        pass
    return 'o' + type(x).__name__


class World(object):
    def __init__(self, seed):
        self.seed = seed
        self.rng = random.Random(seed)
        self.events = []          # complete event log (strings)
        self.hash = hashlib.sha256()
        self.n_events = 0
        # solver seam
        self.solver_runs = []     # per-op record of run() calls
        self.run_counter = 0      # run() calls since the op started
        self.fault_at = None      # {'at_run': k, 'kind': 'fail'|'nan'}
        self.fault_magic = {}     # float value -> kind
        self.magic_fired = set()  # magic values that reached the solver
        self.faults_enabled = True
        self.fired = {}           # fault kind -> count (actually fired)
        self.probes = {}          # probe name -> count
        self.sim_time = 0.0       # simulated solver time covered
        self.sched_steps = 0
        self.keep_events = False
        self.muted = 0            # >0: inside cached harness work, no logging

    # -- logging (never draws from the PRNG) ---------------------------------
    def log(self, *parts):
        if self.muted:
            return
        line = '|'.join(fhex(p) for p in parts)
        self.hash.update(line.encode())
        self.hash.update(b'\n')
        self.n_events += 1
        if self.keep_events:
            self.events.append(line)

    def digest(self):
        return self.hash.hexdigest()

    def probe(self, name, n=1):
        self.probes[name] = self.probes.get(name, 0) + n

    def fire(self, kind, n=1):
        self.fired[kind] = self.fired.get(kind, 0) + n

    # -- solver seam ---------------------------------------------------------
    def stub_event(self, what, **kw):
        self.log('stub', what, kw)
        if what == 'new' and kw.get('sens') and kw.get('protocol'):
            self.probe('sens_simulator_built_with_protocol')

    def begin_op(self, fault=None):
        self.solver_runs = []
        self.run_counter = 0
        self.fault_at = fault

    def end_op(self):
        self.fault_at = None

    def solver_run(self, sim, t0, t1, log_times):
        from .solver_stub import protocol_events
        idx = self.run_counter
        self.run_counter += 1
        self.sim_time += float(t1 - t0)
        rec = {'protocol': protocol_events(sim._protocol),
               'sens': bool(sim._sens), 'duration': float(t1 - t0),
               'n_times': int(len(log_times)),
               'state': list(sim._state),
               'literals': dict(sim._literals)}
        self.solver_runs.append(rec)
        fault = None
        if self.faults_enabled:
            f = self.fault_at
            if f is not None and f.get('at_run') == idx:
                fault = f.get('kind', 'fail')
            elif self.fault_magic:
                for v in list(sim._state) + list(sim._literals.values()):
                    k = self.fault_magic.get(v)
                    if k is not None:
                        fault = k
                        self.magic_fired.add(float(v))
                        break
        self.log('run', idx, t0, t1, len(log_times), rec['protocol'],
                 rec['sens'], fault)
        if fault is not None:
            self.fire('solver_' + fault)
            rec['fault'] = fault
        return fault


def install(world):
    global CURRENT
    CURRENT = world
    return world
