"""
Seam S3: randomness.

``numpy.random.default_rng`` and ``numpy.random.seed`` are wrapped.  A call with
``None`` ("fresh OS entropy") is served from the world's PRNG so that replay is
exact even for unseeded calls; anything else passes through untouched and is
only recorded (argument kind, initial bit-generator state, a handle to read the
final state) for the stream-independence check of C16.
"""
import random

import numpy as np

_REAL_DEFAULT_RNG = np.random.default_rng
_REAL_SEED = np.random.seed

_STATE = {'world': None, 'entropy': None, 'records': None}


def _entropy():
    e = _STATE['entropy']
    if e is None:
        e = random.Random(0)
        _STATE['entropy'] = e
    return e.getrandbits(64)


def _gen_state(gen):
    st = gen.bit_generator.state
    return repr(sorted(
        (k, repr(v)) for k, v in st.items()))


def default_rng(seed=None):
    w = _STATE['world']
    kind = 'none' if seed is None else (
        'generator' if isinstance(seed, np.random.Generator) else
        'int' if isinstance(seed, (int, np.integer)) else type(seed).__name__)
    if seed is None:
        seed = _entropy()
        if w is not None:
            w.fire('os_entropy_substituted')
    gen = _REAL_DEFAULT_RNG(seed)
    recs = _STATE['records']
    if recs is not None and kind != 'generator':
        recs.append({'what': 'default_rng', 'kind': kind, 'gen': gen,
                     'arg': int(seed) if kind == 'int' else None,
                     'initial': _gen_state(gen)})
    if w is not None:
        w.log('rng', 'default_rng', kind)
    return gen


def seed(seed=None):
    w = _STATE['world']
    kind = 'none' if seed is None else type(seed).__name__
    if seed is None:
        seed = _entropy() & 0xFFFFFFFF
        if w is not None:
            w.fire('os_entropy_substituted')
    _REAL_SEED(seed)
    recs = _STATE['records']
    if recs is not None:
        st = np.random.get_state()
        recs.append({'what': 'seed', 'kind': kind, 'gen': None,
                     'arg': int(seed) if isinstance(
                         seed, (int, np.integer)) else None,
                     'initial': repr((st[0], st[1].tobytes(), st[2]))})
    if w is not None:
        w.log('rng', 'seed', kind)


def install():
    np.random.default_rng = default_rng
    np.random.seed = seed


def uninstall():
    np.random.default_rng = _REAL_DEFAULT_RNG
    np.random.seed = _REAL_SEED


def reset(world):
    _STATE['world'] = world
    _STATE['entropy'] = random.Random(world.seed ^ 0x5DEECE66D)
    _STATE['records'] = None


def reseed_entropy(value):
    """Per-operation entropy, so removing an op never shifts later ones."""
    _STATE['entropy'] = random.Random(value)


def begin_records():
    _STATE['records'] = []


def end_records():
    recs = _STATE['records']
    _STATE['records'] = None
    out = []
    for r in recs or []:
        moved = None
        if r['gen'] is not None:
            moved = _gen_state(r['gen']) != r['initial']
        out.append({'what': r['what'], 'kind': r['kind'],
                    'arg': r.get('arg'),
                    'initial': r['initial'], 'moved': moved})
    return out
