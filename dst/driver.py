"""
Batch driver: seeded search over scenarios on a pool of processes, shrinking,
fresh-interpreter replay confirmation, known-finding matching, evidence.
"""
import concurrent.futures as cf
import faulthandler
import hashlib
import importlib
import json
import multiprocessing
import os
import random
import subprocess
import sys
import time
import traceback

from . import kernel, shrink
from .world import derive_seed

ROOT = os.path.dirname(os.path.dirname(os.path.abspath(__file__)))
CLAIMED = ['C03', 'C08', 'C11', 'C15', 'C16', 'C17', 'C19']

BUDGET = {  # (n_runs, wall seconds for the search phase)
    'quick': {'runs': 1500, 'wall': 70},
    'thorough': {'runs': 60000, 'wall': 1500},
}


def load(prop):
    return importlib.import_module('dst.props.' + prop.lower())


def history_sig(mod, scenario):
    """(digest, nontrivial) of the sequence of (op kind, object kind)."""
    kinds = []
    mut = getattr(mod, 'MUTATORS', set())
    obs = getattr(mod, 'OBSERVERS', set())
    seen_mut = False
    nontrivial = False
    for op in scenario['ops']:
        k = op['op']
        tag = k
        if 'fault' in op and op['fault']:
            tag += '!' + str(op['fault'].get('kind', 'f'))
        extra = getattr(mod, 'op_tag', None)
        if extra is not None:
            tag += extra(op)
        kinds.append(tag)
        if k in obs and seen_mut:
            nontrivial = True
        if k in mut:
            seen_mut = True
    if getattr(mod, 'ALWAYS_OBSERVED', False) and seen_mut:
        nontrivial = True
    head = getattr(mod, 'recipe_tag', lambda s: '')(scenario)
    text = head + '>' + ','.join(kinds)
    return hashlib.sha256(text.encode()).hexdigest()[:16], nontrivial


def _worker(args):
    prop, verif_seed, tier, start, stop, deadline, shrink_cap = args
    faulthandler.dump_traceback_later(max(60, deadline - time.time() + 600),
                                      exit=True)
    mod = load(prop)
    kernel.install_seams()
    import multiprocessing
    if multiprocessing.current_process().name != 'MainProcess':
        # the Fortran integrator behind the stand-in solver writes its
        # warnings straight to file descriptor 1; a pool worker reports
        # through its pipe only, so its stdout can go
        try:
            os.dup2(os.open(os.devnull, os.O_WRONLY), 1)
        except OSError:
            pass
    out = {'runs': 0, 'sigs': {}, 'triples': {}, 'probes': {}, 'fired': {},
           'sim_time': 0.0, 'sched_steps': 0, 'failures': [],
           'harness_errors': [], 'samples': [], 'n_ops': 0, 'extra': {},
           'indices': []}
    n_shrunk = 0
    for i in range(start, stop):
        if time.time() > deadline:
            break
        seed = derive_seed(verif_seed, prop, i)
        rng = random.Random(seed)
        try:
            scenario = mod.generate(rng, i, tier)
        except Exception:
            out['harness_errors'].append(
                {'index': i, 'where': 'generate',
                 'detail': traceback.format_exc()[-2000:]})
            continue
        scenario['seed'] = seed
        scenario['index'] = i
        scenario['property'] = prop
        res = kernel.execute(mod, scenario)
        out['runs'] += 1
        out['indices'].append(i)
        out['n_ops'] += len(scenario['ops'])
        sig, nontrivial = history_sig(mod, scenario)
        out['sigs'][sig] = out['sigs'].get(sig, False) or nontrivial
        for t in (res.get('cov') or {}).get('triples', []):
            key = '|'.join(map(str, t))
            out['triples'][key] = out['triples'].get(key, 0) + 1
        for k, v in ((res.get('cov') or {}).get('extra') or {}).items():
            if isinstance(v, (int, float)):
                out['extra'][k] = out['extra'].get(k, 0) + v
            elif isinstance(v, (list, set, tuple)):
                s = out['extra'].setdefault(k, [])
                for x in v:
                    if x not in s and len(s) < 5000:
                        s.append(x)
        for k, v in res['probes'].items():
            out['probes'][k] = out['probes'].get(k, 0) + v
        for k, v in res['fired'].items():
            out['fired'][k] = out['fired'].get(k, 0) + v
        out['sim_time'] += res['sim_time']
        out['sched_steps'] += res['sched_steps']
        if len(out['samples']) < 2 and nontrivial:
            out['samples'].append(scenario)
        if res['status'] == 'timeout':
            out['timeouts'] = out.get('timeouts', 0) + 1
            out.setdefault('timeout_indices', []).append(i)
        if res['status'] == 'harness_error':
            out['harness_errors'].append(
                {'index': i, 'where': 'execute', 'detail': res['detail'],
                 'scenario': scenario})
        elif res['status'] == 'violation':
            entry = {'index': i, 'seed': seed, 'oracle': res['oracle'],
                     'mismatch': res['mismatch'], 'detail': res['detail'],
                     'scenario': scenario, 'minimised': None}
            if n_shrunk < shrink_cap:
                n_shrunk += 1
                try:
                    small = shrink.ddmin_ops(
                        mod, scenario, (res['oracle'], res['mismatch']))
                    entry['minimised'] = small
                    r2 = kernel.execute(mod, small)
                    entry['detail'] = r2.get('detail', entry['detail'])
                except Exception:
                    entry['shrink_error'] = traceback.format_exc()[-1500:]
            out['failures'].append(entry)
    faulthandler.cancel_dump_traceback_later()
    from . import zoo
    zoo.cleanup()
    return out


# ---------------------------------------------------------------------------
# known findings
# ---------------------------------------------------------------------------
def load_known():
    path = os.path.join(ROOT, 'known_findings.json')
    if not os.path.exists(path):
        return []
    with open(path) as f:
        return json.load(f).get('findings', [])


def _op_matches(pat, op):
    """pattern element: 'a|b{key:value,...}'"""
    body = pat
    args = {}
    if '{' in pat:
        body, rest = pat.split('{', 1)
        rest = rest.rstrip('}')
        for kv in rest.split(','):
            if not kv.strip():
                continue
            k, v = kv.split(':', 1)
            args[k.strip()] = v.strip()
    if op['op'] not in body.split('|'):
        return False
    for k, v in args.items():
        have = op.get(k)
        if isinstance(have, bool):
            have = 'true' if have else 'false'
        if str(have) != v:
            return False
    return True


def matches_known(entry, prop, oracle, mismatch, scenario, detail=''):
    if entry.get('status') != 'open' or entry.get('property') != prop:
        return False
    sig = entry['signature']
    oracles = sig.get('oracles') or [sig['oracle']]
    if '*' not in oracles and oracle not in oracles and '%s/%s' % (
            oracle, mismatch) not in oracles:
        return False
    if sig.get('detail_contains') and sig['detail_contains'] not in (
            detail or ''):
        return False
    trig = sig.get('trigger')
    if trig is not None:
        fn = getattr(load(prop), 'KNOWN_TRIGGERS', {}).get(trig)
        if fn is None or not fn(scenario):
            return False
    if sig.get('mismatch') not in (None, mismatch):
        return False
    ops = scenario['ops']
    if len(ops) > sig.get('max_ops', 6):
        return False
    tag = sig.get('recipe_contains')
    if tag is not None and tag not in json.dumps(
            scenario.get('recipes'), sort_keys=True):
        return False
    pos = 0
    for pat in sig.get('pattern', []):
        while pos < len(ops) and not _op_matches(pat, ops[pos]):
            pos += 1
        if pos >= len(ops):
            return False
        pos += 1
    return True


# ---------------------------------------------------------------------------
# replay
# ---------------------------------------------------------------------------
def replay_file(path, verbose=True):
    with open(path) as f:
        scenario = json.load(f)
    mod = load(scenario['property'])
    res = kernel.execute(mod, scenario, keep_events=False)
    if verbose:
        print('REPLAY property=%s status=%s oracle=%s mismatch=%s digest=%s'
              % (scenario['property'], res['status'], res.get('oracle'),
                 res.get('mismatch'), res['digest']))
        if res['status'] != 'ok':
            print(res.get('detail', ''))
    return res


def confirm_fresh(path, oracle, mismatch):
    """Re-executes a replay file in a fresh interpreter."""
    env = dict(os.environ)
    env['PYTHONHASHSEED'] = '0'
    env['PYTHONPATH'] = ROOT + os.pathsep + env.get('DST_REPO', '/repo')
    p = subprocess.run(
        [sys.executable, '-m', 'dst.cli', 'replay', path],
        cwd=ROOT, env=env, capture_output=True, text=True, timeout=600)
    want = 'status=violation oracle=%s mismatch=%s' % (oracle, mismatch)
    return want in p.stdout, p.stdout[-2000:] + p.stderr[-2000:]


# ---------------------------------------------------------------------------
# main entry
# ---------------------------------------------------------------------------
def run_check(prop, tier, verif_seed, n_runs=None, wall=None, procs=None,
              write_evidence=True, quiet=False):
    t0 = time.time()
    mod = load(prop)
    budget = dict(BUDGET[tier])
    budget.update(getattr(mod, 'BUDGET', {}).get(tier, {}))
    if n_runs is None:
        n_runs = int(os.environ.get('DST_RUNS', budget['runs']))
    if wall is None:
        wall = float(os.environ.get('DST_WALL', budget['wall']))
    if procs is None:
        procs = int(os.environ.get('DST_PROCS', min(16, os.cpu_count() or 1)))
    deadline = t0 + wall
    chunk = max(1, min(50, n_runs // (procs * 4) or 1))
    tasks = [(prop, verif_seed, tier, s, min(n_runs, s + chunk), deadline, 25)
             for s in range(0, n_runs, chunk)]
    agg = {'runs': 0, 'sigs': {}, 'triples': {}, 'probes': {}, 'fired': {},
           'sim_time': 0.0, 'sched_steps': 0, 'failures': [],
           'harness_errors': [], 'samples': [], 'n_ops': 0, 'extra': {}}
    harness_fail = None
    ctx = multiprocessing.get_context('fork')
    try:
        with cf.ProcessPoolExecutor(max_workers=procs, mp_context=ctx) as ex:
            futs = [ex.submit(_worker, t) for t in tasks]
            for f in cf.as_completed(futs, timeout=wall + 900):
                r = f.result()
                agg['runs'] += r['runs']
                agg['n_ops'] += r['n_ops']
                for k, v in r['sigs'].items():
                    agg['sigs'][k] = agg['sigs'].get(k, False) or v
                for key in ('triples', 'probes', 'fired'):
                    for k, v in r[key].items():
                        agg[key][k] = agg[key].get(k, 0) + v
                for k, v in r['extra'].items():
                    if isinstance(v, list):
                        s = agg['extra'].setdefault(k, [])
                        for x in v:
                            if x not in s and len(s) < 20000:
                                s.append(x)
                    else:
                        agg['extra'][k] = agg['extra'].get(k, 0) + v
                agg['sim_time'] += r['sim_time']
                agg['sched_steps'] += r['sched_steps']
                agg['timeouts'] = agg.get('timeouts', 0) + r.get('timeouts', 0)
                agg.setdefault('timeout_indices', []).extend(
                    r.get('timeout_indices', []))
                agg['failures'] += r['failures']
                agg['harness_errors'] += r['harness_errors']
                if len(agg['samples']) < 3:
                    agg['samples'] += r['samples'][:1]
    except Exception:
        harness_fail = traceback.format_exc()[-3000:]

    search_wall = time.time() - t0
    known = load_known()
    known_hits = {}
    violations = []
    lines = []
    # known findings: replay every open witness
    for e in known:
        if e.get('property') != prop:
            continue
        if e.get('status') == 'open':
            w = dict(e['witness'])
            w.setdefault('property', prop)
            res = kernel.execute(mod, w)
            sig = e['signature']
            if res['status'] == 'violation' and matches_known(
                    e, prop, res['oracle'], res['mismatch'], w,
                    res.get('detail')):
                lines.append('KNOWN-FINDING: property=%s %s: %s' % (
                    prop, e['id'], e['what']))
                known_hits.setdefault(e['id'], 0)
            else:
                lines.append(
                    'NOTE: known finding %s no longer reproduces on this '
                    'tree (status=%s)' % (e['id'], res['status']))
    os.makedirs(os.path.join(ROOT, 'replays'), exist_ok=True)
    seen_sigs = set()
    per_class = {}
    extra_same_class = {}
    n_unshrunk = 0
    for fidx, fl in enumerate(sorted(
            agg['failures'], key=lambda x: x['index'])):
        small = fl.get('minimised')
        if small is None:
            n_unshrunk += 1
            # unshrunk failures beyond the per-worker cap: judged by class
            small_for_match = None
        else:
            small_for_match = small
        hit = None
        if small_for_match is not None:
            for e in known:
                if matches_known(e, prop, fl['oracle'], fl['mismatch'],
                                 small_for_match, fl.get('detail')):
                    hit = e
                    break
        if hit is not None:
            known_hits[hit['id']] = known_hits.get(hit['id'], 0) + 1
            continue
        key = (fl['oracle'], fl['mismatch'])
        if small is None:
            # try to shrink now (in the parent), a few at most
            if key in seen_sigs or len(seen_sigs) >= 8:
                violations.append((fl, None))
                continue
            try:
                small = shrink.ddmin_ops(mod, fl['scenario'], key)
            except Exception:
                small = fl['scenario']
            for e in known:
                if matches_known(e, prop, fl['oracle'], fl['mismatch'],
                                 small, fl.get('detail')):
                    hit = e
                    break
            if hit is not None:
                known_hits[hit['id']] = known_hits.get(hit['id'], 0) + 1
                continue
        seen_sigs.add(key)
        per_class[key] = per_class.get(key, 0) + 1
        if per_class[key] > 2 or len(violations) >= 16:
            extra_same_class[key] = extra_same_class.get(key, 0) + 1
            continue
        path = os.path.join(ROOT, 'replays', '%s-%d-%d.json' % (
            prop, verif_seed, fl['index']))
        small = dict(small)
        small['violation'] = {'oracle': fl['oracle'],
                              'mismatch': fl['mismatch'],
                              'detail': fl['detail']}
        with open(path, 'w') as f:
            json.dump(small, f, indent=1, sort_keys=True,
                      default=kernel._json_default)
        violations.append((fl, path))

    exit_code = 0
    confirmed = 0
    reported = set()
    for fl, path in violations:
        if path is None:
            continue
        ok, outp = confirm_fresh(path, fl['oracle'], fl['mismatch'])
        if ok:
            confirmed += 1
            lines.append('VIOLATION property=%s replay=%s' % (
                prop, os.path.relpath(path, ROOT)))
            lines.append('  oracle=%s mismatch=%s seed=%d index=%d' % (
                fl['oracle'], fl['mismatch'], fl['seed'], fl['index']))
            lines.append('  ' + fl['detail'].replace('\n', '\n  ')[:1200])
            exit_code = 1
            reported.add((fl['oracle'], fl['mismatch']))
        else:
            lines.append('HARNESS-ERROR replay %s did not reproduce in a '
                         'fresh interpreter:\n%s' % (path, outp))
            if exit_code == 0:
                exit_code = 2
    for fl, path in violations:
        if path is None and (fl['oracle'], fl['mismatch']) not in reported:
            # same class as nothing reported: still a violation, unminimised
            p2 = os.path.join(ROOT, 'replays', '%s-%d-%d.json' % (
                prop, verif_seed, fl['index']))
            sc = dict(fl['scenario'])
            sc['violation'] = {'oracle': fl['oracle'],
                               'mismatch': fl['mismatch'],
                               'detail': fl['detail']}
            with open(p2, 'w') as f:
                json.dump(sc, f, indent=1, sort_keys=True,
                          default=kernel._json_default)
            ok, outp = confirm_fresh(p2, fl['oracle'], fl['mismatch'])
            if ok:
                lines.append('VIOLATION property=%s replay=%s' % (
                    prop, os.path.relpath(p2, ROOT)))
                exit_code = 1
                reported.add((fl['oracle'], fl['mismatch']))
    for key, cnt in sorted(extra_same_class.items()):
        lines.append('NOTE: %d further failing runs of class oracle=%s '
                     'mismatch=%s not listed' % (cnt, key[0], key[1]))
    if agg['harness_errors'] or harness_fail:
        for h in agg['harness_errors'][:3]:
            lines.append('HARNESS-ERROR index=%s where=%s\n%s' % (
                h.get('index'), h.get('where'), h.get('detail')))
        if harness_fail:
            lines.append('HARNESS-ERROR pool: ' + harness_fail)
        if exit_code == 0:
            exit_code = 2
    if agg.get('timeouts'):
        lines.append('NOTE: %d runs abandoned by the %ss wall-clock guard '
                     '(indices %s)' % (agg['timeouts'], os.environ.get(
                         'DST_RUN_TIMEOUT', '60'),
                         sorted(agg['timeout_indices'])[:10]))
        if agg['timeouts'] > max(5, 0.02 * agg['runs']) and exit_code == 0:
            lines.append('HARNESS-ERROR too many abandoned runs')
            exit_code = 2
    refused = agg['probes'].get('composition_refused_by_chi', 0)
    if refused:
        lines.append('NOTE: in %d runs chi refused to build an object of the '
                     'scenario (input validation); these runs observed '
                     'nothing' % refused)
        if refused > max(5, 0.05 * agg['runs']) and exit_code == 0:
            lines.append('HARNESS-ERROR too many scenarios refused by chi')
            exit_code = 2
    if agg['runs'] == 0 and exit_code == 0:
        lines.append('HARNESS-ERROR no runs executed')
        exit_code = 2

    wall_s = time.time() - t0
    distinct = len(agg['sigs'])
    nontrivial = sum(1 for v in agg['sigs'].values() if v)
    if write_evidence:
        ev = {
            'property_id': prop, 'tier': tier, 'seed': int(verif_seed),
            'level': 'exploration',
            'coverage': {
                'evaluations': agg['runs'],
                'distinct_nontrivial': nontrivial,
                'rule': getattr(mod, 'RULE', (
                    'seeded swarm generation of operation/fault histories; a '
                    'history is the sequence of (operation kind, fault kind) '
                    'plus the object recipe class; distinct = distinct '
                    'SHA-256 of that sequence; non-trivial = at least one '
                    'state-changing operation followed by at least one '
                    'observation')),
                'samples': [_compact(s) for s in agg['samples'][:3]],
                'exhaustive': False,
                'distinct_histories': distinct,
                'operations_executed': agg['n_ops'],
                'distinct_op_triples': len(agg['triples']),
                'fault_kinds_fired': agg['fired'],
                'probes': agg['probes'],
                'runs_per_hour': int(agg['runs'] / max(search_wall, 1e-9)
                                     * 3600),
                'simulated_solver_time': agg['sim_time'],
                'scheduler_steps': agg['sched_steps'],
                'index_range': [0, n_runs],
                'processes': procs,
                'real_components': [
                    'chi (from /repo working tree)', 'pints', 'numpy',
                    'scipy', 'pandas', 'xarray',
                    'myokit model layer (SBML import, Model, Protocol, '
                    'PacingSystem, CModel validation)'],
                'stubbed_components': [
                    'myokit.Simulation/CVODES -> dst.solver_stub (seam S1)',
                    'multiprocessing/time.sleep inside pints._evaluation -> '
                    'dst.mp_stub (seam S2)',
                    'OS entropy for seed=None -> dst.rng_seam (seam S3)'],
                'known_findings_hit': known_hits,
                'runs_abandoned_by_wall_clock_guard': agg.get('timeouts', 0),
                'extra': {k: (len(v) if isinstance(v, list) else v)
                          for k, v in agg['extra'].items()},
            },
            'assumptions': getattr(mod, 'ASSUMPTIONS', [
                'solver stand-in is faithful to CVODES for the models used '
                '(validated by chi\'s own sundials tests under the stub)',
                'sampling, not enumeration']),
            'wall_s': wall_s,
            'violations': sum(1 for l in lines if l.startswith('VIOLATION')),
        }
        os.makedirs(os.path.join(ROOT, 'evidence'), exist_ok=True)
        with open(os.path.join(ROOT, 'evidence', prop + '.json'), 'w') as f:
            json.dump(_strict(json.loads(json.dumps(
                ev, default=kernel._json_default))), f, indent=1,
                sort_keys=True, allow_nan=False)
    if not quiet:
        print('%s tier=%s seed=%d runs=%d distinct=%d nontrivial=%d '
              'failures=%d known_hits=%s wall=%.1fs' % (
                  prop, tier, verif_seed, agg['runs'], distinct, nontrivial,
                  len(agg['failures']), known_hits, wall_s))
        for l in lines:
            print(l)
        sys.stdout.flush()
    return exit_code, agg, lines


def _strict(o):
    """NaN / infinity are not JSON: written as strings in evidence files."""
    if isinstance(o, float) and (o != o or o in (float('inf'), -float('inf'))):
        return repr(o)
    if isinstance(o, dict):
        return {k: _strict(v) for k, v in o.items()}
    if isinstance(o, (list, tuple)):
        return [_strict(v) for v in o]
    return o


def _compact(s):
    s = _strict({k: v for k, v in s.items() if k not in ('violation',)})
    text = json.dumps(s, default=kernel._json_default)
    if len(text) > 6000:
        s = dict(s)
        s['ops'] = s['ops'][:12] + [{'op': '... %d more' % (
            len(s['ops']) - 12)}]
    return s
