"""
Self-tests of the simulator: setup, stub fidelity, determinism, sensitivity
(mutants), process-stub fidelity.
"""
import glob
import json
import os
import random
import shutil
import subprocess
import sys
import tempfile
import time

ROOT = os.path.dirname(os.path.dirname(os.path.abspath(__file__)))

# Upstream tests that are expected to fail under the stand-in, with reasons.
EXPECTED_STUB_RESIDUE = {
    'chi/tests/test_plots_residuals.py::TestResidualPlot::test_add_data_individual': 'pandas read-only array (baseline always-fail, unrelated to the solver)',
    'chi/tests/test_plots_residuals.py::TestResidualPlot::test_add_data_obs_key_mapping': 'pandas read-only array',
    'chi/tests/test_plots_residuals.py::TestResidualPlot::test_add_data_show_relative': 'pandas read-only array',
    'chi/tests/test_plots_residuals.py::TestResidualPlot::test_add_data_time_key_mapping': 'pandas read-only array',
    'chi/tests/test_plots_residuals.py::TestResidualPlot::test_add_data_value_key_mapping': 'pandas read-only array',
    'chi/tests/test_inference.py::TestOptimisationController::test_run': 'relies on CVODES failing for a negative parameter (stand-in integrates it exactly)',
    'chi/tests/test_inference.py::TestOptimisationController::test_run_catch_exception': '1-dimensional CMA-ES rejected by pints (unrelated to the solver)',
    'chi/tests/test_log_pdfs.py::TestLogLikelihood::test_call_and_compute_pointwise_ll': 'asserts bitwise float equality of a sum (differs in the last bit)',
    'chi/tests/test_predictive_models.py::TestPredictiveModel::test_sample': 'pins numbers computed with CVODES default tolerance 1e-4',
}


def setup():
    """Fast sanity check used as MANIFEST.setup_cmd."""
    from . import kernel, driver
    kernel.install_seams()
    import chi
    import chi.library
    import numpy as np
    m = chi.library.ModelLibrary().one_compartment_pk_model()
    m.set_administration('central')
    m.set_dosing_regimen(1.0, start=0.5, duration=0.1)
    out = m.simulate([0.0, 2.0, 1.0], [0.0, 1.0, 2.0])
    assert out.shape == (1, 3) and np.all(np.isfinite(out)), out
    for p in driver.CLAIMED:
        try:
            driver.load(p)
        except ModuleNotFoundError:
            pass
    print('setup ok: chi from %s, stub simulate %s' % (
        os.path.dirname(chi.__file__), out.tolist()))
    return 0


def stub():
    env = dict(os.environ)
    repo = env.get('DST_REPO', '/repo')
    p = subprocess.run(
        [sys.executable, '-m', 'dst.stub_pytest', 'chi/tests'], cwd=repo,
        env=env, capture_output=True, text=True, timeout=1800)
    failed = set()
    for line in p.stdout.splitlines():
        if line.startswith('FAILED ') or line.startswith('ERROR '):
            failed.add(line.split()[1])
    summary = [l for l in p.stdout.splitlines() if ' passed' in l]
    print('\n'.join(summary[-1:]))
    unexpected = sorted(failed - set(EXPECTED_STUB_RESIDUE))
    for f in sorted(failed & set(EXPECTED_STUB_RESIDUE)):
        print('expected residue: %s -- %s' % (f, EXPECTED_STUB_RESIDUE[f]))
    if unexpected:
        print('UNEXPECTED failures under the solver stand-in:')
        for f in unexpected:
            print('  ' + f)
        return 2
    print('stub fidelity ok')
    return 0


def _digests(prop, indices, hashseed, procs):
    code = (
        "import sys, json, random\n"
        "from dst import driver, kernel\n"
        "from dst.world import derive_seed\n"
        "import concurrent.futures as cf, multiprocessing\n"
        "prop = sys.argv[1]; idx = json.loads(sys.argv[2]); "
        "procs = int(sys.argv[3])\n"
        "def one(i):\n"
        "    mod = driver.load(prop); kernel.install_seams()\n"
        "    seed = derive_seed(0, prop, i)\n"
        "    sc = mod.generate(random.Random(seed), i, 'quick')\n"
        "    sc.update(seed=seed, index=i, property=prop)\n"
        "    r = kernel.execute(mod, sc)\n"
        "    return [i, kernel.dumps(sc), r['digest'], r['status']]\n"
        "if procs == 1:\n"
        "    out = [one(i) for i in idx]\n"
        "else:\n"
        "    ctx = multiprocessing.get_context('fork')\n"
        "    with cf.ProcessPoolExecutor(procs, mp_context=ctx) as ex:\n"
        "        out = list(ex.map(one, idx))\n"
        "print('DIGESTS ' + json.dumps(out))\n")
    env = dict(os.environ)
    env['PYTHONHASHSEED'] = str(hashseed)
    p = subprocess.run(
        [sys.executable, '-c', code, prop, json.dumps(indices), str(procs)],
        cwd=ROOT, env=env, capture_output=True, text=True, timeout=3600)
    for line in p.stdout.splitlines():
        if line.startswith('DIGESTS '):
            return json.loads(line[8:])
    raise RuntimeError('determinism child failed:\n' + p.stdout[-2000:]
                       + p.stderr[-3000:])


def determinism(props=None, n=200):
    from . import driver
    import hashlib
    props = props or driver.CLAIMED
    bad = 0
    for prop in props:
        try:
            driver.load(prop)
        except ModuleNotFoundError:
            print('%s: no module yet, skipped' % prop)
            continue
        idx = list(range(n))
        t0 = time.time()
        a = _digests(prop, idx, 0, 16)
        b = _digests(prop, idx, 0, 1)
        c = _digests(prop, idx, 12345, 16)
        diffs = []
        for x, y, z in zip(a, b, c):
            if not (x[1] == y[1] == z[1]):
                diffs.append((x[0], 'scenario'))
            elif not (x[2] == y[2] == z[2]):
                diffs.append((x[0], 'digest'))
        print('%s: %d seeds x 3 executions (16 procs, 1 proc, other '
              'PYTHONHASHSEED): %d divergences, %.0fs' % (
                  prop, n, len(diffs), time.time() - t0))
        if diffs:
            print('  diverging: %s' % diffs[:10])
            bad += 1
    return 2 if bad else 0


def sensitivity(props=None, tier='quick', runs=None):
    """Applies each mutant to a scratch copy of the repo and runs the check."""
    from . import driver
    tmpbase = os.environ.get('TMPDIR', '/tmp')
    mutants = sorted(glob.glob(os.path.join(ROOT, 'mutants', '*.patch')))
    seeded = sorted(glob.glob(os.path.join(ROOT, 'seeded', '*', 'patch.diff')))
    results = []
    for path in mutants + seeded:
        if path.endswith('patch.diff'):
            name = os.path.basename(os.path.dirname(path))
            meta = json.load(open(os.path.join(
                os.path.dirname(path), 'meta.json')))
            targets = meta.get('detected_by') or [meta['property']]
            if meta.get('not_detected'):
                print('%s: documented as out of reach of every check (%s)' % (
                    name, meta['not_detected'][:110]))
                results.append((name, 'stale'))
                continue
            if meta.get('neutralised_by'):
                print('%s: neutralised by repair %s (no longer breaks the '
                      'property on the current tree)' % (
                          name, meta['neutralised_by']))
                results.append((name, 'stale'))
                continue
        else:
            name = os.path.basename(path)[:-6]
            targets = [name.split('-')[0]]
        if props and not (set(targets) & set(props)):
            continue
        scratch = tempfile.mkdtemp(prefix='dst-mutant-', dir=tmpbase)
        try:
            repo = os.path.join(scratch, 'repo')
            src = os.environ.get('DST_REPO', '/repo')
            os.makedirs(repo)
            shutil.copytree(os.path.join(src, 'chi'),
                            os.path.join(repo, 'chi'))
            p = subprocess.run(['patch', '-p1', '-s', '-i', path], cwd=repo,
                               capture_output=True, text=True)
            if p.returncode != 0:
                if path.endswith('patch.diff'):
                    # a seeded change was validated against the tree of its
                    # time; later fix: commits may have moved its context
                    print('%s: does not apply to the current tree any more '
                          '(see its meta.json for the tree it was validated '
                          'on)' % name)
                    results.append((name, 'stale'))
                else:
                    print('%s: PATCH DOES NOT APPLY\n%s' % (name, p.stdout))
                    results.append((name, 'noapply'))
                continue
            caught = []
            for prop in targets:
                if props and prop not in props:
                    continue
                env = dict(os.environ)
                env['DST_REPO'] = repo
                env['PYTHONPATH'] = repo + os.pathsep + ROOT
                cmd = [sys.executable, '-m', 'dst.cli', prop, '--tier', tier,
                       '--no-evidence']
                if runs:
                    cmd += ['--runs', str(runs)]
                t0 = time.time()
                q = subprocess.run(cmd, cwd=ROOT, env=env,
                                   capture_output=True, text=True,
                                   timeout=7200)
                v = [l for l in q.stdout.splitlines()
                     if l.startswith('VIOLATION')]
                print('%s vs %s: exit %d, %d violation lines, %.0fs' % (
                    name, prop, q.returncode, len(v), time.time() - t0))
                if q.returncode == 2:
                    print(q.stdout[-1500:])
                if q.returncode == 1 and v:
                    caught.append(prop)
                    for l in q.stdout.splitlines():
                        if l.startswith('  oracle='):
                            print('   ' + l)
                            break
            results.append((name, 'caught' if caught else 'MISSED'))
        finally:
            shutil.rmtree(scratch, ignore_errors=True)
            for f in glob.glob(os.path.join(ROOT, 'replays', '*.json')):
                pass
    missed = [r for r in results if r[1] not in ('caught', 'stale')]
    print('sensitivity: %d/%d mutants caught' % (
        len(results) - len(missed), len(results)))
    for r in missed:
        print('  %s: %s' % r)
    return 2 if missed else 0


def main(argv):
    what = argv[0] if argv else 'setup'
    rest = argv[1:]
    if what == 'setup':
        return setup()
    if what == 'stub':
        return stub()
    if what == 'determinism':
        n = 200
        props = [a for a in rest if a.startswith('C')] or None
        for a in rest:
            if a.isdigit():
                n = int(a)
        return determinism(props, n)
    if what == 'sensitivity':
        props = [a for a in rest if a.startswith('C')] or None
        tier = 'thorough' if 'thorough' in rest else 'quick'
        return sensitivity(props, tier)
    if what == 'mp':
        from . import mp_selftest
        return mp_selftest.main(rest)
    print('unknown selftest ' + what)
    return 2
