"""Command line: check <ID> --tier ..., replay <file>, selftest <what>."""
import argparse
import os
import sys


def main(argv=None):
    argv = list(sys.argv[1:] if argv is None else argv)
    if not argv:
        print('usage: check <C..> [--tier quick|thorough] | replay <file> | '
              'selftest <determinism|sensitivity|stub|mp>')
        return 2
    cmd = argv[0]
    if cmd == 'replay':
        from . import driver
        res = driver.replay_file(argv[1])
        return {'ok': 0, 'violation': 1}.get(res['status'], 2)
    if cmd == 'selftest':
        from . import selftest
        return selftest.main(argv[1:])
    if cmd == 'gen':
        # print the scenario for an index (debugging aid)
        import json
        import random
        from . import driver, kernel
        from .world import derive_seed
        prop, idx = argv[1], int(argv[2])
        tier = argv[3] if len(argv) > 3 else 'quick'
        mod = driver.load(prop)
        kernel.install_seams()
        seed = derive_seed(int(os.environ.get('VERIF_SEED', '0')), prop, idx)
        sc = mod.generate(random.Random(seed), idx, tier)
        sc.update(seed=seed, index=idx, property=prop)
        print(json.dumps(sc, indent=1, sort_keys=True,
                         default=kernel._json_default))
        return 0
    ap = argparse.ArgumentParser()
    ap.add_argument('prop')
    ap.add_argument('--tier', default=os.environ.get('VERIF_TIER', 'quick'))
    ap.add_argument('--runs', type=int, default=None)
    ap.add_argument('--wall', type=float, default=None)
    ap.add_argument('--procs', type=int, default=None)
    ap.add_argument('--no-evidence', action='store_true')
    a = ap.parse_args(argv)
    tier = a.tier if a.tier in ('quick', 'thorough') else 'quick'
    from . import driver
    if a.prop not in driver.CLAIMED:
        print('HARNESS-ERROR %s is not a claimed property' % a.prop)
        return 2
    seed = int(os.environ.get('VERIF_SEED', '0') or 0)
    code, _, _ = driver.run_check(
        a.prop, tier, seed, n_runs=a.runs, wall=a.wall, procs=a.procs,
        write_evidence=not a.no_evidence)
    return code


if __name__ == '__main__':
    sys.exit(main())
