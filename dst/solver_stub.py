"""
Seam S1: stand-in for ``myokit.Simulation`` (CVODES is absent in the sandbox).

It is the *peer* the simulator owns: it executes the model chi hands over,
records every call in the current world's event log, and is the fault point
for solver failures (F1) and blow-ups (F2).

Two engines:

* exact LTI engine (matrix exponential of the augmented system) whenever the
  right hand side is affine in the state and does not depend on time;
* adaptive engine (scipy ``solve_ivp``/LSODA) otherwise, forward sensitivities
  integrated alongside with complex-step Jacobians.

Pacing is myokit's own ``PacingSystem`` run over the protocol chi built.
"""
import numpy as np
import myokit
import myokit.formats.python
from scipy.integrate import solve_ivp

from . import world as _world

_H = 1e-30
_REAL_SIMULATION = myokit.Simulation

# caches (pure functions of model text; identical results hit or miss)
_CODE_CACHE = {}
_SENS_CACHE = {}


def expm(A):
    """
    Matrix exponential by scaling and squaring with a degree-20 Taylor
    polynomial (scaled 1-norm <= 1/4, truncation error < 1e-25).
    scipy.linalg.expm (1.12) was measured to be wrong by 1e-2 on the
    block-triangular augmented sensitivity systems built here.
    """
    A = np.asarray(A, dtype=float)
    n = A.shape[0]
    nrm = np.linalg.norm(A, 1)
    if not np.isfinite(nrm):
        return np.full(A.shape, np.nan)
    s = 0
    if nrm > 0.25:
        s = int(np.ceil(np.log2(nrm / 0.25)))
    B = A / (2.0 ** s)
    E = np.eye(n)
    term = np.eye(n)
    for k in range(1, 21):
        term = term @ B / k
        E = E + term
    for _ in range(s):
        E = E @ E
    return E


class _Compiled(object):
    __slots__ = ('rhs', 'src', 'lit_order', 'state_names', 'names', 'lti',
                 'n', 'qnames')


def _compile(model):
    key = model.code()
    hit = _CODE_CACHE.get(key)
    if hit is not None:
        return hit
    m = model
    names = {}
    for i, var in enumerate(m.variables(deep=True, sort=True)):
        names[var.qname()] = 'v%d' % i
    w = myokit.formats.python.NumPyExpressionWriter()

    def lhs(x):
        if isinstance(x, myokit.Derivative):
            return 'd_' + names[x.var().qname()]
        return names[x.var().qname()]
    w.set_lhs_function(lhs)
    states = list(m.states())
    literals = sorted(
        var.qname() for var in m.variables(const=True, deep=True)
        if var.is_literal())
    lines = ['def rhs(t, pace, y, c):']
    for i, s in enumerate(states):
        lines.append('    %s = y[%d]' % (names[s.qname()], i))
    for i, q in enumerate(literals):
        lines.append('    %s = c[%d]' % (names[q], i))
    for label, eqs in m.solvable_order().items():
        for eq in eqs.equations():
            var = eq.lhs.var()
            if var.is_literal() and var.is_constant():
                continue
            if var.binding() == 'time':
                lines.append('    %s = t' % names[var.qname()])
                continue
            if var.binding() == 'pace':
                lines.append('    %s = pace' % names[var.qname()])
                continue
            if var.binding() is not None:
                lines.append('    %s = 0.0' % names[var.qname()])
                continue
            lines.append('    %s = %s' % (w.ex(eq.lhs), w.ex(eq.rhs)))
    lines.append('    dy = [%s]' % ', '.join(
        'd_' + names[s.qname()] for s in states))
    lines.append('    allv = {%s}' % ', '.join(
        '%r: %s' % (q, n) for q, n in sorted(names.items())))
    lines.append('    return dy, allv')
    src = '\n'.join(lines)
    ns = {'numpy': np}
    exec(compile(src, '<dst.solver_stub>', 'exec'), ns)
    c = _Compiled()
    c.rhs = ns['rhs']
    c.src = src
    c.lit_order = literals
    c.state_names = [s.qname() for s in states]
    c.names = names
    c.n = len(states)
    c.qnames = sorted(names)
    c.lti = _is_lti(c, m)
    _CODE_CACHE[key] = c
    return c


def _is_lti(c, m):
    """Numerical test: f affine in y and independent of t."""
    n = c.n
    if n == 0:
        return False
    rs = np.random.RandomState(20231)   # private generator, never the global
    cc = np.array([m.get(q).rhs().eval() for q in c.lit_order], dtype=float)
    cc = cc + 0.37 * (1 + np.abs(cc)) * rs.uniform(0.5, 1.5, size=len(cc))

    def f(t, pace, y):
        return np.array(c.rhs(t, pace, y, cc)[0], dtype=float)
    try:
        with np.errstate(all='ignore'):
            y1 = rs.uniform(0.5, 2.0, size=n)
            y2 = rs.uniform(0.5, 2.0, size=n)
            f0 = f(0.3, 0.7, np.zeros(n))
            a = f(0.3, 0.7, y1) - f0
            b = f(0.3, 0.7, y2) - f0
            ab = f(0.3, 0.7, y1 + y2) - f0
            s = f(0.3, 0.7, 2.5 * y1) - f0
            ft = f(1.9, 0.7, y1) - f0
    except Exception:
        return False
    vals = np.concatenate([f0, a, b, ab, s, ft])
    if not np.all(np.isfinite(vals)):
        return False
    scale = 1 + np.max(np.abs(vals))
    tol = 1e-11 * scale
    return bool(
        np.max(np.abs(ab - a - b)) < tol
        and np.max(np.abs(s - 2.5 * a)) < tol
        and np.max(np.abs(ft - a)) < tol)


def _validate_sens(model, sensitivities):
    """Uses the real myokit.CModel to accept / reject the request."""
    deps, indeps = sensitivities
    key = (model.code(), tuple(str(d) for d in deps),
           tuple(str(i) for i in indeps))
    hit = _SENS_CACHE.get(key)
    if hit is None:
        cm = myokit.CModel(model, ['pace'], (list(deps), list(indeps)))
        if not cm.has_sensitivities:
            hit = (False, None, None)
        else:
            dep_q = []
            for d in cm.dependents:
                # Name or Derivative expressions
                if isinstance(d, myokit.Derivative):
                    raise NotImplementedError(
                        'stub: sensitivities of derivatives not supported')
                dep_q.append(d.var().qname())
            ind = []
            for e in cm.independents:
                if isinstance(e, myokit.InitialValue):
                    ind.append(('s', e.var().qname()))
                else:
                    ind.append(('c', e.var().qname()))
            hit = (True, dep_q, ind)
        _SENS_CACHE[key] = hit
    return hit


def protocol_events(protocol):
    """Protocol as a hashable, comparable tuple of event tuples."""
    if protocol is None:
        return None
    return tuple(
        (float(e.level()), float(e.start()), float(e.duration()),
         float(e.period()), int(e.multiplier())) for e in protocol.events())


class StubSimulation(object):
    """What chi uses of ``myokit.Simulation`` and nothing else."""

    def __init__(self, model, protocol=None, sensitivities=None, path=None):
        if not isinstance(model, myokit.Model):
            raise ValueError('stub: model must be a myokit.Model')
        model.validate()
        self._model = model.clone()
        self._protocol = None
        self.set_protocol(protocol)
        self._c = _compile(self._model)
        m = self._model
        self._literals = {
            q: float(m.get(q).rhs().eval()) for q in self._c.lit_order}
        self._sens_request = None
        self._sens = False
        if sensitivities is not None:
            deps, indeps = sensitivities
            deps = [str(d) for d in deps]
            indeps = [str(i) for i in indeps]
            ok, dep_q, ind = _validate_sens(m, (deps, indeps))
            self._sens_request = (deps, indeps)
            if ok:
                self._sens = True
                self._sens_deps = dep_q
                self._sens_ind = ind
        self._default_state = [
            float(x) for x in m.initial_values(as_floats=True)]
        self._state = list(self._default_state)
        self._time = 0.0
        w = _world.CURRENT
        if w is not None:
            w.stub_event('new', sens=bool(self._sens),
                         n_states=self._c.n,
                         protocol=protocol_events(self._protocol))

    # -- copying ----------------------------------------------------------
    def __reduce__(self):
        return (_rebuild, (
            self._model, self._protocol, self._sens_request,
            self._time, list(self._state), list(self._default_state),
            dict(self._literals)))

    def __deepcopy__(self, memo):
        return _rebuild(
            self._model, self._protocol, self._sens_request, self._time,
            list(self._state), list(self._default_state),
            dict(self._literals))

    # -- API used by chi ---------------------------------------------------
    def reset(self):
        self._time = 0.0
        self._state = list(self._default_state)

    def time(self):
        return self._time

    def state(self):
        return list(self._state)

    def set_state(self, state):
        state = [float(x) for x in state]
        if len(state) != self._c.n:
            raise ValueError(
                'Wrong number of initial values, expecting '
                + str(self._c.n) + '.')
        self._state = state

    def set_default_state(self, state):
        state = [float(x) for x in state]
        if len(state) != self._c.n:
            raise ValueError('Wrong number of initial values.')
        self._default_state = state

    def set_constant(self, var, value):
        value = float(value)
        if isinstance(var, myokit.Variable):
            var = var.qname()
        var = self._model.get(var).qname()
        if var not in self._literals:
            raise ValueError(
                'The given variable <' + var + '> is not a literal.')
        self._literals[var] = value

    def set_protocol(self, protocol, label='pace'):
        self._protocol = None if protocol is None else protocol.clone()

    def set_tolerance(self, abs_tol=1e-6, rel_tol=1e-4):
        pass

    def set_max_step_size(self, dtmax=None):
        pass

    def set_min_step_size(self, dtmin=None):
        pass

    # -- pacing -----------------------------------------------------------
    def _segments(self, t0, t1):
        """[(a, b, pace)] constant-pace pieces of [t0, t1]."""
        if self._protocol is None or t1 <= t0:
            return [(t0, t1, 0.0)]
        ps = myokit.PacingSystem(self._protocol, initial_time=0)
        if t0 > 0:
            ps.advance(t0)
        segs = []
        a = t0
        pace = float(ps.pace())
        guard = 0
        while True:
            tn = ps.next_time()
            if tn >= t1:
                break
            guard += 1
            if guard > 100000:
                raise myokit.SimulationError(
                    'stub: too many pacing events')
            if tn > a:
                segs.append((a, tn, pace))
                a = tn
            ps.advance(tn)
            pace = float(ps.pace())
        segs.append((a, t1, pace))
        return segs

    # -- run ---------------------------------------------------------------
    def run(self, duration, log=None, log_interval=None, log_times=None,
            sensitivities=None, apd_variable=None, apd_threshold=None,
            progress=None, msg='Running simulation'):
        duration = float(duration)
        if duration < 0:
            raise ValueError('Simulation time can\'t be negative.')
        if log is None:
            log = list(self._c.state_names)
        if log_times is None:
            raise NotImplementedError('stub: log_times is required')
        log_times = np.array(log_times, dtype=float).reshape(-1)
        if np.any(log_times[1:] < log_times[:-1]):
            raise ValueError('Values in log_times must be non-decreasing.')
        keys = list(dict.fromkeys(log))
        for k in keys:
            self._model.get(k)  # KeyError for unknown names

        t0 = self._time
        t1 = t0 + duration
        w = _world.CURRENT
        fault = None
        if w is not None:
            fault = w.solver_run(self, t0, t1, log_times)
        if fault == 'fail':
            raise myokit.SimulationError(
                'injected solver failure (dst fault F1)')

        c = self._c
        n = c.n
        cvec = np.array([self._literals[q] for q in c.lit_order], dtype=float)
        y0 = np.array(self._state, dtype=float)
        if not (np.all(np.isfinite(cvec)) and np.all(np.isfinite(y0))):
            raise myokit.SimulationError(
                'stub: non-finite parameter values')
        sens = self._sens
        ind = []
        if sens:
            for kind, q in self._sens_ind:
                if kind == 's':
                    ind.append(('s', c.state_names.index(q)))
                else:
                    ind.append(('c', c.lit_order.index(q)))
        npar = len(ind)

        wanted = sorted(set(float(t) for t in log_times if t0 <= t < t1))
        segs = self._segments(t0, t1)
        S0 = np.zeros((npar, n))
        for k, (kind, idx) in enumerate(ind):
            if kind == 's':
                S0[k, idx] = 1.0
        with np.errstate(all='ignore'):
            if c.lti:
                out = self._run_lti(segs, wanted, y0, S0, cvec, ind)
            else:
                out = self._run_adaptive(segs, wanted, y0, S0, cvec, ind)
        out_y, out_S, y_end = out

        result = {k: [] for k in keys}
        senss = []
        qn = {k: self._model.get(k).qname() for k in keys}
        seg_of = {}
        for t in wanted:
            for (a, b, pace) in segs:
                if a <= t < b or (t == a == b):
                    seg_of[t] = pace
                    break
            else:
                seg_of[t] = segs[-1][2]
        with np.errstate(all='ignore'):
            for t in log_times:
                t = float(t)
                if t not in out_y:
                    continue
                y = out_y[t]
                pace = seg_of[t]
                _, allv = c.rhs(t, pace, y, cvec)
                for k in keys:
                    v = allv[qn[k]]
                    v = float(np.real(v))
                    if fault == 'nan':
                        v = float('nan')
                    result[k].append(v)
                if sens:
                    S = out_S[t]
                    mat = []
                    for q in self._sens_deps:
                        g = np.empty(n)
                        for j in range(n):
                            yc = y.astype(complex)
                            yc[j] += 1j * _H
                            g[j] = np.imag(c.rhs(t, pace, yc, cvec)[1][q]) / _H
                        row = []
                        for kk, (kind, idx) in enumerate(ind):
                            val = float(g @ S[kk])
                            if kind == 'c':
                                cc = cvec.astype(complex)
                                cc[idx] += 1j * _H
                                val += float(np.imag(
                                    c.rhs(t, pace, y, cc)[1][q]) / _H)
                            row.append(val)
                        mat.append(row)
                    senss.append(mat)
        # CVODES fails on non-finite values; so does the stand-in
        if fault != 'nan':
            for k in keys:
                if not np.all(np.isfinite(result[k])):
                    raise myokit.SimulationError(
                        'stub: non-finite values encountered')
            if sens and senss and not np.all(np.isfinite(np.array(senss))):
                raise myokit.SimulationError(
                    'stub: non-finite sensitivities encountered')
        if not np.all(np.isfinite(y_end)):
            raise myokit.SimulationError('stub: non-finite state')
        if w is not None and w.solver_runs:
            vals = [abs(v) for k in keys for v in result[k]]
            w.solver_runs[-1]['min_abs'] = min(vals) if vals else None
            w.solver_runs[-1]['exact'] = bool(c.lti)
        self._time = t1
        self._state = [float(v) for v in y_end]
        if sens:
            return result, senss
        return result

    # -- exact engine ---------------------------------------------------------
    def _run_lti(self, segs, wanted, y0, S0, cvec, ind):
        c = self._c
        n = c.n
        m = len(ind)

        def f(y, cc, pace):
            return np.array(c.rhs(0.0, pace, y, cc)[0])

        out_y, out_S = {}, {}
        y = y0
        S = S0
        # Jacobian wrt state is constant for LTI
        A = np.empty((n, n))
        zero = np.zeros(n)
        for j in range(n):
            yc = zero.astype(complex)
            yc[j] += 1j * _H
            A[:, j] = np.imag(f(yc, cvec, 0.0)) / _H
        Ms, gs_static = [], []
        for k, (kind, idx) in enumerate(ind):
            if kind == 's':
                Ms.append(None)
                continue

            def fk(yy, idx=idx, pace=0.0):
                cc = cvec.astype(complex)
                cc[idx] += 1j * _H
                return np.imag(f(yy.astype(complex), cc, pace)) / _H
            g0 = fk(zero)
            M = np.column_stack(
                [fk(np.eye(n)[:, j]) - g0 for j in range(n)])
            Ms.append(M)
        if not np.all(np.isfinite(A)):
            raise myokit.SimulationError('stub: non-finite Jacobian')
        N = n * (m + 1) + 1
        for (a, b, pace) in segs:
            bvec = f(zero, cvec, pace)
            if not np.all(np.isfinite(bvec)):
                raise myokit.SimulationError('stub: non-finite rhs')
            Z = np.zeros((N, N))
            Z[:n, :n] = A
            Z[:n, -1] = bvec
            for k, (kind, idx) in enumerate(ind):
                r = n * (k + 1)
                Z[r:r + n, r:r + n] = A
                if kind == 'c':
                    cc = cvec.astype(complex)
                    cc[idx] += 1j * _H
                    g = np.imag(f(zero.astype(complex), cc, pace)) / _H
                    Z[r:r + n, :n] = Ms[k]
                    Z[r:r + n, -1] = g
            if not np.all(np.isfinite(Z)):
                raise myokit.SimulationError('stub: non-finite system')
            z0 = np.concatenate([y] + [S[k] for k in range(m)] + [[1.0]])

            def at(dt):
                z = expm(Z * dt) @ z0
                yy = z[:n]
                SS = np.array(
                    [z[n * (k + 1):n * (k + 2)] for k in range(m)]
                ).reshape(m, n)
                return yy, SS
            for t in wanted:
                if a <= t < b and t not in out_y:
                    if t == a:
                        out_y[t], out_S[t] = y.copy(), S.copy()
                    else:
                        out_y[t], out_S[t] = at(t - a)
            if b > a:
                y, S = at(b - a)
                if not np.all(np.isfinite(y)):
                    raise myokit.SimulationError('stub: non-finite state')
        for t in wanted:
            if t not in out_y:
                out_y[t], out_S[t] = y.copy(), S.copy()
        return out_y, out_S, y

    # -- adaptive engine ------------------------------------------------------
    def _run_adaptive(self, segs, wanted, y0, S0, cvec, ind):
        c = self._c
        n = c.n
        npar = len(ind)
        sens = npar > 0

        def f(t, pace, y, cc):
            return np.array(c.rhs(t, pace, y, cc)[0])

        work = [0]

        def aug(t, z, pace):
            work[0] += 1
            if work[0] > 20000:
                # CVODES gives up after mxstep internal steps; so does the
                # stand-in (a singular / exploding solution)
                raise myokit.SimulationError(
                    'stub: too much work (singular or exploding solution)')
            y = z[:n]
            dy = f(t, pace, y, cvec)
            if not sens:
                return dy
            S = z[n:].reshape(npar, n)
            Jx = np.empty((n, n))
            for j in range(n):
                yc = y.astype(complex)
                yc[j] += 1j * _H
                Jx[:, j] = np.imag(f(t, pace, yc, cvec)) / _H
            dS = S @ Jx.T
            for k, (kind, idx) in enumerate(ind):
                if kind == 'c':
                    cc = cvec.astype(complex)
                    cc[idx] += 1j * _H
                    dS[k] += np.imag(f(t, pace, y, cc)) / _H
            return np.concatenate([dy, dS.ravel()])

        z = np.concatenate([y0, S0.ravel()]) if sens else y0.copy()
        out_y, out_S = {}, {}

        def store(t, zz):
            out_y[t] = np.array(zz[:n])
            out_S[t] = (np.array(zz[n:]).reshape(npar, n) if sens
                        else np.zeros((0, n)))
        for (a, b, pace) in segs:
            te = [t for t in wanted if a <= t < b and t not in out_y]
            if te and te[0] == a:
                store(a, z)
                te = te[1:]
            if b <= a:
                continue
            t_eval = te + [b]
            sol = solve_ivp(
                lambda t, zz: aug(t, zz, pace), (a, b), z, method='LSODA',
                rtol=1e-10, atol=1e-12, t_eval=t_eval)
            if not sol.success or sol.y.shape[1] != len(t_eval):
                raise myokit.SimulationError(
                    'stub: integration failed: ' + str(sol.message))
            for k, t in enumerate(te):
                store(t, sol.y[:, k])
            z = sol.y[:, -1]
            if not np.all(np.isfinite(z)):
                raise myokit.SimulationError('stub: non-finite state')
        for t in wanted:
            if t not in out_y:
                store(t, z)
        return out_y, out_S, z[:n]


def _rebuild(model, protocol, sens_request, time, state, default_state,
             literals):
    w = _world.CURRENT
    sim = StubSimulation.__new__(StubSimulation)
    sim._model = model.clone()
    sim._protocol = None if protocol is None else protocol.clone()
    sim._c = _compile(sim._model)
    sim._sens_request = None
    sim._sens = False
    if sens_request is not None:
        deps, indeps = sens_request
        ok, dep_q, ind = _validate_sens(sim._model, (deps, indeps))
        sim._sens_request = (list(deps), list(indeps))
        if ok:
            sim._sens = True
            sim._sens_deps = dep_q
            sim._sens_ind = ind
    sim._time = time
    sim._state = list(state)
    sim._default_state = list(default_state)
    sim._literals = dict(literals)
    if w is not None:
        w.stub_event('copy', sens=bool(sim._sens), n_states=sim._c.n,
                     protocol=protocol_events(sim._protocol))
    return sim


def install():
    myokit.Simulation = StubSimulation


def uninstall():
    myokit.Simulation = _REAL_SIMULATION
