"""
Kernel: violations, comparison helpers, scenario execution, seams.
"""
import copy
import json
import os
import random
import signal
import threading
import traceback
import warnings

import numpy as np

from . import world as _world

RTOL = 1e-10
ATOL = 1e-12


class Violation(Exception):
    def __init__(self, oracle, mismatch, detail='', step=None):
        super(Violation, self).__init__(
            '%s/%s: %s' % (oracle, mismatch, detail))
        self.oracle = oracle
        self.mismatch = mismatch
        self.detail = detail
        self.step = step


class RunTimeout(BaseException):
    pass


class SkipOp(Exception):
    """Operation whose precondition does not hold (after a shrink step)."""


class HarnessBug(Exception):
    """A programming error of the harness itself (never the system's)."""


_HERE = os.path.dirname(os.path.abspath(__file__))


def _own_programming_error(e):
    """NameError & co. raised by a line of the harness (not of chi)."""
    if not isinstance(e, (NameError, ImportError)):
        return False
    tb = e.__traceback__
    last = None
    while tb is not None:
        last = tb.tb_frame.f_code.co_filename
        tb = tb.tb_next
    return last is not None and os.path.abspath(last).startswith(_HERE)


# ---------------------------------------------------------------------------
# results of calls: value or exception type
# ---------------------------------------------------------------------------
class Exc(object):
    def __init__(self, e):
        self.type = type(e).__name__
        self.msg = str(e)[:200]
        self.tb = traceback.format_exc(limit=6)[-1500:]

    def __repr__(self):
        return 'Exc(%s: %s)' % (self.type, self.msg)


def call(f, *a, **kw):
    """Calls f and returns its value or an Exc."""
    try:
        with warnings.catch_warnings():
            warnings.simplefilter('ignore')
            with np.errstate(all='ignore'):
                return f(*a, **kw)
    except Violation:
        raise
    except SkipOp:
        raise
    except RunTimeout:
        raise
    except HarnessBug:
        raise
    except BaseException as e:
        if isinstance(e, (KeyboardInterrupt, SystemExit, MemoryError)):
            raise
        if _own_programming_error(e):
            # must never be mistaken for an exception of the system
            raise HarnessBug('%s: %s' % (type(e).__name__, e)) from e
        return Exc(e)


def is_exc(x):
    return isinstance(x, Exc)


class Held(object):
    """
    Results the caller keeps: what an evaluation returned belongs to the
    caller and must not change when the object is used again.
    """
    def __init__(self, cap=4):
        self.items = []
        self.cap = cap

    def keep(self, what, obj):
        if is_exc(obj) or obj is None:
            return
        try:
            snap = copy.deepcopy(obj)
        except Exception:
            return
        self.items.append((what, obj, snap))
        del self.items[:-self.cap]

    def verify(self, step):
        for what, obj, snap in self.items:
            if not identical(obj, snap):
                raise Violation(
                    'result_overwritten', 'by_later_call',
                    'the result of %s, kept by the caller, has changed '
                    'after later calls:\n was: %s\n now: %s' % (
                        what, short(snap, 300), short(obj, 300)), step)


def _scalar(v):
    return v is None or isinstance(v, (str, bool, int, float, np.number,
                                       np.bool_))


def close(a, b, rtol=RTOL, atol=ATOL, norm=False):
    """
    Structural closeness of numbers / arrays / tuples / lists / frames.
    With ``norm`` the relative tolerance of an array is taken with respect to
    its largest entry (for gradients whose entries differ by many orders of
    magnitude and come out of two different integrations).
    """
    if is_exc(a) or is_exc(b):
        return is_exc(a) and is_exc(b) and a.type == b.type
    if a is None or b is None:
        return a is None and b is None
    try:
        import pandas as pd
        if isinstance(a, pd.DataFrame) or isinstance(b, pd.DataFrame):
            return frames_equal(a, b, rtol, atol)
    except ImportError:
        pass
    if isinstance(a, (tuple, list)) and isinstance(b, (tuple, list)) and (
            any(not _scalar(v) for v in a) or any(not _scalar(v) for v in b)):
        if len(a) != len(b):
            return False
        return all(close(x, y, rtol, atol, norm) for x, y in zip(a, b))
    if isinstance(a, dict) and isinstance(b, dict):
        if sorted(a, key=str) != sorted(b, key=str):
            return False
        return all(close(a[k], b[k], rtol, atol, norm) for k in a)
    if isinstance(a, str) or isinstance(b, str):
        return a == b
    try:
        x = np.asarray(a)
        y = np.asarray(b)
    except Exception:
        return a == b
    if x.dtype == object or y.dtype == object or x.dtype.kind in 'US' \
            or y.dtype.kind in 'US':
        if x.shape != y.shape:
            return False
        return all(
            close(p, q, rtol, atol) if not isinstance(p, str) else p == q
            for p, q in zip(x.ravel().tolist(), y.ravel().tolist()))
    if x.shape != y.shape:
        return False
    x = x.astype(float)
    y = y.astype(float)
    with np.errstate(all='ignore'):
        same = (x == y) | (np.isnan(x) & np.isnan(y))
        scale = np.maximum(np.abs(x), np.abs(y))
        if norm and scale.size:
            fin = scale[np.isfinite(scale)]
            scale = np.full(scale.shape, fin.max() if fin.size else 0.0)
        near = np.abs(x - y) <= atol + rtol * scale
    return bool(np.all(same | (near & np.isfinite(x) & np.isfinite(y))))


def frames_equal(a, b, rtol=RTOL, atol=ATOL):
    import pandas as pd
    if not (isinstance(a, pd.DataFrame) and isinstance(b, pd.DataFrame)):
        return False
    if list(map(str, a.columns)) != list(map(str, b.columns)):
        return False
    if len(a) != len(b):
        return False
    for c in a.columns:
        x = a[c].tolist()
        y = b[c].tolist()
        for p, q in zip(x, y):
            if isinstance(p, str) or isinstance(q, str):
                if p != q:
                    return False
            else:
                if not close(p, q, rtol, atol):
                    return False
    return True


def identical(a, b):
    return close(a, b, rtol=0.0, atol=0.0)


def short(x, n=300):
    try:
        if isinstance(x, np.ndarray):
            s = np.array2string(x, precision=12, threshold=40)
        else:
            s = repr(x)
    except Exception:
        s = '<%s>' % type(x).__name__
    return s if len(s) <= n else s[:n] + '...'


def snapshot(x):
    """Value snapshot of an argument (array / list / frame)."""
    try:
        import pandas as pd
        if isinstance(x, pd.DataFrame):
            return ('df', list(map(str, x.columns)), [str(d) for d in x.dtypes],
                    [copy.deepcopy(x[c].tolist()) for c in x.columns],
                    list(x.index))
    except ImportError:
        pass
    if isinstance(x, np.ndarray):
        return ('nd', x.dtype.str, x.shape, x.copy())
    return ('py', copy.deepcopy(x))


def snapshot_equal(s, x):
    t = snapshot(x)
    if s[0] != t[0]:
        return False
    if s[0] == 'df':
        return s[1] == t[1] and s[2] == t[2] and s[4] == t[4] and all(
            identical(p, q) for p, q in zip(s[3], t[3]))
    if s[0] == 'nd':
        return s[1] == t[1] and s[2] == t[2] and identical(s[3], t[3])
    return identical(s[1], t[1]) if not isinstance(s[1], dict) \
        else s[1] == t[1]


# ---------------------------------------------------------------------------
# seams
# ---------------------------------------------------------------------------
_INSTALLED = [False]


def install_seams():
    if _INSTALLED[0]:
        return
    from . import solver_stub, rng_seam
    solver_stub.install()
    rng_seam.install()
    _INSTALLED[0] = True
    import chi
    import os
    path = os.path.abspath(chi.__file__)
    want = os.environ.get('DST_REPO', '/repo')
    if not path.startswith(os.path.abspath(want) + os.sep):
        raise RuntimeError(
            'chi is imported from %s, expected under %s' % (path, want))


# ---------------------------------------------------------------------------
# scenario execution
# ---------------------------------------------------------------------------
def _refused_by_chi(e):
    """ValueError / TypeError raised inside chi under a zoo.build_* frame."""
    if not isinstance(e, (ValueError, TypeError)):
        return False
    tb = e.__traceback__
    in_build = False
    last = None
    while tb is not None:
        code = tb.tb_frame.f_code
        if code.co_filename.endswith('zoo.py') and code.co_name.startswith(
                'build_'):
            in_build = True
        last = code.co_filename
        tb = tb.tb_next
    return in_build and last is not None and (
        os.sep + 'chi' + os.sep) in last


def execute(mod, scenario, keep_events=False):
    """
    Runs one scenario against the real code.  Returns a dict:
      status: 'ok' | 'violation' | 'harness_error'
      oracle, mismatch, detail, step    (violation)
      digest, n_events, probes, fired, sim_time, sched_steps, cov
    """
    install_seams()
    w = _world.World(scenario.get('seed', 0))
    w.keep_events = keep_events
    _world.install(w)
    from . import rng_seam
    rng_seam.reset(w)
    res = {'status': 'ok'}
    # process-global generators start from a state derived from the seed, so
    # that no run depends on what an earlier run in the same process left.
    np.random.seed(scenario.get('seed', 0) & 0x7FFFFFFF)
    random.seed(scenario.get('seed', 0))
    limit = float(os.environ.get('DST_RUN_TIMEOUT', '60'))
    use_alarm = (threading.current_thread() is threading.main_thread()
                 and hasattr(signal, 'setitimer'))
    if use_alarm:
        def _on_alarm(signum, frame):
            raise RunTimeout()
        old_handler = signal.signal(signal.SIGALRM, _on_alarm)
        signal.setitimer(signal.ITIMER_REAL, limit)
    try:
        with warnings.catch_warnings():
            warnings.simplefilter('ignore')
            cov = mod.run(scenario, w)
        res['cov'] = cov or {}
    except RunTimeout:
        # wall-clock guard of the harness (a pathological integration in the
        # solver stand-in): the run is abandoned and counted, never a pass
        # for the whole batch if it happens often
        res.update(status='timeout', detail='run exceeded %.0fs' % limit)
    except Violation as v:
        res.update(status='violation', oracle=v.oracle, mismatch=v.mismatch,
                   detail=str(v.detail)[:2000], step=v.step)
        w.log('violation', v.oracle, v.mismatch, v.step)
    except BaseException as e:
        if isinstance(e, (KeyboardInterrupt, SystemExit)):
            raise
        if _refused_by_chi(e):
            # chi's own input validation refuses an object of the recipe
            # while the harness builds it: nothing to observe in this run
            w.probe('composition_refused_by_chi')
            res['cov'] = {}
        else:
            res.update(status='harness_error',
                       detail=traceback.format_exc()[-3000:])
    finally:
        if use_alarm:
            signal.setitimer(signal.ITIMER_REAL, 0)
            signal.signal(signal.SIGALRM, old_handler)
        _world.install(None)
    res['digest'] = w.digest()
    res['n_events'] = w.n_events
    res['probes'] = dict(w.probes)
    res['fired'] = dict(w.fired)
    res['sim_time'] = w.sim_time
    res['sched_steps'] = w.sched_steps
    if keep_events:
        res['events'] = list(w.events)
    return res


def signature(res):
    return (res.get('oracle'), res.get('mismatch'))


def dumps(obj):
    return json.dumps(obj, sort_keys=True, default=_json_default)


def _json_default(o):
    if isinstance(o, (np.integer,)):
        return int(o)
    if isinstance(o, (np.floating,)):
        return float(o)
    if isinstance(o, np.ndarray):
        return o.tolist()
    if isinstance(o, (set, frozenset)):
        return sorted(o)
    raise TypeError('not JSON serialisable: %r' % (o,))
