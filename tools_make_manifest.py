#!/venv/bin/python
"""Writes MANIFEST.json from the table below (kept in one place)."""
import json, os
HERE = os.path.dirname(os.path.abspath(__file__))
TECH = 'deterministic simulation with fault injection: seeded search over operation/fault/schedule histories against a reference model, ddmin-minimised replay files'
CLAIMED = {
 'C11': dict(
   text='Seeded exploration of configuration histories (route, regimen, outputs, renames, sensitivities, fixing, copies, injected solver failures) on library and generated SBML models; after every operation the object and every tracked copy must observe like a fresh model carrying only the net configuration, and the protocol in force in the (simulated) solver at every run must be the one dosing_regimen() reports. Sampling, not proof.',
   ref='DESIGN.md section 5 (C11)',
   note='Trusted: the solver stand-in (dst/solver_stub.py, validated by chi\'s own sundials tests: 511/520 pass under it), the reference transition function in dst/props/c11.py for documented effects of each operation; ambiguous sequences are not executed.'),
}
CLAIMED['C08'] = dict(
   text='Seeded exploration of fix / re-fix / release / rename histories on every reducible kind of object (4 error models, SBML/PKPD mechanistic models with routes and regimens, all population models incl. composed and covariate ones, LogLikelihood, PredictiveModel, PopulationPredictiveModel, ProblemModellingController with and without population model) against a never-fixed twin built from the same recipe: names and counts equal the original list minus the fixed indices, every evaluation (value, pointwise, seeded samples, sensitivities restricted to the free entries, simulate +/- sensitivities) at the free values equals the twin at the substituted full vector, including under injected solver failures. Sampling, not proof.',
   ref='DESIGN.md section 5 (C08)',
   note='Trusted: solver stand-in; the twin only sees the current dict, so order-independence and release-restores follow from the comparison.')
CLAIMED['C17'] = dict(
   text='Seeded exploration of population-model compositions (all leaf classes, covariate and reduced wrappers, composed models; kinds cycled by run index so every pair meets) under reconfiguration histories (set_n_ids, set_dim_names, set_parameter_names incl. reset, set_covariate_names, fix/release, set_population_parameters, re-composition) followed by compositions on top (LogLikelihood/LogPosterior/PredictiveModel over SBML and toy mechanistic models, HierarchicalLogLikelihood/Posterior, PopulationFilterLogPosterior, PopulationPredictiveModel, ProblemModellingController with set_population_model / set_data / set_log_prior / get_log_posterior / get_predictive_model). After every operation: count = number of names = accepted vector length = gradient length, n_hierarchical_parameters sums to the hierarchical count, IDs mark exactly the individual-level entries, default ID-prefixed names are distinct, composite names are the concatenation of the parts. Sampling, not proof.',
   ref='DESIGN.md section 5 (C17)',
   note='Self-consistency invariants only (no reference formulas). Exceptions count only when they are shape/index/length errors; NotImplementedError and value errors are not this property. Six open known findings (known_findings.json) are avoided by the generator in 80% of runs.')
CLAIMED['C16'] = dict(
   text='Seeded exploration of interleaved sampling calls on 11 kinds of sampling entry point (4 error models + reduced, all population models, PredictiveModel, PopulationPredictiveModel, Prior/Posterior/PAM predictive models, sample_initial_parameters of the three posteriors, SamplingController(seed)) with integer / Generator / None seeds while the process-global numpy and random generators are perturbed between calls. History oracle: same integer seed => identical result (D1), different seeds => different draws where continuous noise exists (D2), a Generator passed as seed is advanced and is the only source of randomness (D3, twin generator on an untouched replica), no two generators created inside one draw start from the same state and both produce variates, systematically across seeds (D4 i), no two noise cells are perfectly dependent (D4 ii). Sampling, not proof; partial correlation is out of reach.',
   ref='DESIGN.md section 5 (C16)',
   note='Trusted: the randomness seam (dst/rng_seam.py) sees every numpy.random.default_rng / numpy.random.seed call chi makes; unseeded draws are served from the run PRNG so they replay. D3 is applied only to entry points that accept a Generator.')
CLAIMED['C19'] = dict(
   text='Seeded exploration of interleaved evaluation histories (value, pointwise values, value with sensitivities, simulate, seeded sampling, initial points) on 2-6 objects derived from shared user models (error/mechanistic/population models and their reduced wrappers, LogLikelihood, LogPosterior, HierarchicalLogLikelihood/Posterior, PopulationFilterLogPosterior, PredictiveModel, PopulationPredictiveModel), with caller-side changes of the user models after hand-over, read-only / list / strided-view arguments, injected solver failures, perturbation of the global generators, and batches through the real pints.ParallelEvaluator running on a simulated machine (baton-passing processes, fork emulated by deep copy, seeded scheduler, 1-4 workers, worker recycling, persistent workers over two batches, parent-side evaluations between batches, starvation) against pints.SequentialEvaluator. Every result must equal the same query on a fresh, never-touched replica built per distinct query; arguments must be unchanged. Sampling, not proof.',
   ref='DESIGN.md section 5 (C19)',
   note='Trusted: solver stand-in; process emulation (dst/mp_stub.py): fork = deep copy + private global-generator state, an evaluation inside a worker is atomic (forked processes share no memory). Pre-emption inside a chi call by another thread is not modelled (no property claims thread safety). Population models are not mutated behind a likelihood (not promised by the property).')
CLAIMED['C03'] = dict(
   text='Scoped. Seeded exploration of histories under the four log-pdf classes and PopulationFilterLogPosterior: the user mechanistic model first goes through a random valid configuration history (routes incl. indirect->direct, regimens, renames, output changes, sensitivity switches, copies), then value / value-with-sensitivities checks in both orders are interleaved with fix / release on the likelihood, regimen changes through get_submodels and solver failures (exception or non-finite output) injected at the same logical evaluation of both paths. Decided: the score returned with the sensitivities equals the plain score; finite <=> finite; gradient length = n_parameters. The k-th-partial-derivative clause is only input-sampled at the visited points by Richardson central differences with an error-aware margin (sign / index / missing-factor slips give O(1) discrepancies; a subtle 1e-6 error would pass). Sampling, not proof.',
   ref='DESIGN.md section 5 (C03)',
   note='Trusted: solver stand-in (exact LTI engine with own scaling-and-squaring expm; adaptive LSODA engine with looser tolerances). Points are kept of order one and evaluations whose model outputs sit at the round-off / tolerance level of the solver are skipped, because two solver objects legitimately disagree there. Compositions listed as open C17 findings (covariate model over pooled / heterogeneous) are not generated here.')
CLAIMED['C15'] = dict(
   text='Scoped. Seeded exploration of usage histories of a shared population model, a ProblemModellingController and the user mechanistic model (hierarchical likelihoods over k individuals, set_n_ids, controller set_data / set_population_model / get_log_posterior with per-individual dose rows, other sample sizes, fixes on sibling predictive models, caller-side regimen changes after hand-over), interleaved with seeded sampling from PredictiveModel, PopulationPredictiveModel (also the ones a controller returns), Prior/Posterior/PAM predictive models. Decided: every sample equals the same call on a fresh stack that has seen nothing (history independence); every table holds each (ID 1..n, time, observable) cell exactly once, filled, in ascending time order, with dose rows equal to get_dosing_regimen(final time) per ID; by intercepting the call into the underlying predictive model, the parameter vector handed down is one complete (chain, draw) row of the posterior of the requested individual / exactly the prior draw, one per sample, and a zero-weight model is never used. NOT decided: that samples follow the stated distributions (needs statistics).',
   ref='DESIGN.md section 5 (C15)',
   note='Trusted: solver stand-in; heterogeneous dimensions are excluded (their parameter count legitimately depends on the number of individuals); pooled dimensions are the open finding KF-C15-2 and are generated in 25% of runs only.')
NA = {
 'C01': 'pure function of grids, observations and parameters: no history, schedule, fault or process in the statement; deciding it needs input generation against a reference likelihood (property-based testing), a different technique',
 'C02': 'pure function of composition, data and parameter vector; nothing for a simulator to control',
 'C04': 'closed-form densities and gradients of stateless objects; pure',
 'C05': 'closed-form densities, layouts and gradients of population models; layout is an input dimension, not a history',
 'C06': 'distributional equality of samplers and densities needs statistics over many draws, not schedules or faults',
 'C07': 'algebraic identity between a covariate model and its underlying model; pure',
 'C09': 'correctness of simulate for every SBML program is a differential test over generated programs; no nondeterminism, clock or fault in it',
 'C10': 'delivered dose is a deterministic function of regimen arguments; chi reads no clock (the ODE clock is myokit\'s); the history-dependent clause (reported regimen = applied regimen) is decided under C11',
 'C12': 'filters are pure functions of arrays; their evaluation purity is covered by C19, their values are not a simulation target',
 'C13': 'filter posterior value/gradient are pure functions of arrays; purity covered by C19',
 'C14': 'the controller\'s posterior is a pure function of dataset and configuration; row routing has no schedule in it',
 'C18': 'dimension, finiteness and labelling of initial points / result tables are pure; the seed clause is exercised by C16 and evaluation in workers by C19',
 'C20': 'figure traces are pure functions of the data frames',
}
PENDING = {}
def main():
    checks = []
    for pid in sorted(CLAIMED):
        c = CLAIMED[pid]
        checks.append({
            'property_id': pid,
            'quick_cmd': './check %s --tier quick' % pid,
            'thorough_cmd': './check %s --tier thorough' % pid,
            'evidence_file': 'evidence/%s.json' % pid,
            'replay_cmd_template': './check replay {path}',
            'engine': 'dst',
            'level_claimed': {'category': 'exploration', 'text': c['text'], 'design_ref': c['ref']},
            'level_note': c['note'],
            'technique': TECH,
        })
    na = [{'property_id': k, 'reason': v} for k, v in sorted({**NA, **PENDING}.items())]
    m = {
        'version': 1,
        'setup_cmd': './check selftest setup',
        'hooks': {'guard': 'CHI_VERIF', 'enable': 'no source hooks: every seam (myokit.Simulation, numpy.random.default_rng/seed, pints._evaluation.multiprocessing/time/sys) is a module attribute replaced inside the harness process only', 'baseline_off_cmd': 'cd /repo && /venv/bin/python -m pytest -ra -q -p no:cacheprovider --timeout=900 --continue-on-collection-errors', 'source_commits': [], 'add_only': True},
        'engines': [{'name': 'dst', 'path': 'dst/', 'serves_properties': sorted(CLAIMED), 'kind_free_text': 'deterministic simulator: solver stand-in with fault point (S1), baton-passing process emulation under a seeded scheduler for pints.ParallelEvaluator (S2), randomness seam (S3), scenario generator, reference models, ddmin shrinker, replay'}],
        'checks': checks,
        'not_applicable': na,
        'notes': 'Exit codes: 0 property held on everything explored (KNOWN-FINDING lines allowed), 1 VIOLATION (replay confirmed in a fresh interpreter), 2 HARNESS-ERROR (never a pass). Repairs of genuine defects are fix: commits in /repo, recorded in known_findings.json.',
    }
    with open(os.path.join(HERE, 'MANIFEST.json'), 'w') as f:
        json.dump(m, f, indent=1)
main()
