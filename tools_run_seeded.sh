#!/bin/sh
# tools_run_seeded.sh <patch> <prop> [<prop>...] : applies a patch to /repo, runs the quick checks, undoes it.
patch="$1"; shift
git -C /repo apply "$patch" || { echo "patch does not apply"; exit 2; }
trap 'git -C /repo checkout -- . ' EXIT
for p in "$@"; do
  /verif/check $p --no-evidence 2>&1 | grep -a -E "^C[0-9]+ tier|^VIOLATION|^  oracle|^HARNESS|^NOTE" | cut -c1-220 | head -8
done
