#!/bin/sh
# tools_run_seeded.sh <patch> <prop> [<prop>...] : applies a patch to a scratch copy of /repo/chi
# (never to /repo itself, so that other runs are not disturbed), runs the quick checks against the
# copy (DST_REPO), removes the copy.
patch="$1"; shift
scratch=$(mktemp -d "${TMPDIR:-/tmp}/dst-seeded-XXXXXX")
trap 'rm -rf "$scratch"' EXIT
mkdir -p "$scratch/repo"
cp -r /repo/chi "$scratch/repo/chi"
( cd "$scratch/repo" && patch -p1 -s -i "$patch" ) || { echo "patch does not apply"; exit 2; }
for p in "$@"; do
  DST_REPO="$scratch/repo" /verif/check $p --no-evidence 2>&1 | grep -a -E "^C[0-9]+ tier|^VIOLATION|^  oracle|^HARNESS|^NOTE" | cut -c1-220 | head -8
done
