#!/venv/bin/python
"""
Generates /verif/mutants/*.patch from textual replacements on /repo's current
tree (each mutant breaks one claimed property while the 346 stable tests stay
green).  Usage: tools_make_mutants.py [--test]   (--test runs the baseline on
each mutant in a scratch copy under $TMPDIR)
"""
import difflib, os, shutil, subprocess, sys, tempfile
REPO = os.environ.get('DST_REPO', '/repo')
OUT = os.path.join(os.path.dirname(os.path.abspath(__file__)), 'mutants')
M = []
def mut(name, path, old, new, count=1):
    M.append((name, path, old, new, count))

MM = 'chi/_mechanistic_models.py'
LP = 'chi/_log_pdfs.py'
PM = 'chi/_population_models.py'
EM = 'chi/_error_models.py'
PR = 'chi/_predictive_models.py'

# ---- C19
mut('C19-02-loglik-does-not-copy-mechanistic-model', LP,
    "        # Copy mechanistic model\n        mechanistic_model = mechanistic_model.copy()\n\n        # Set outputs\n        if outputs is not None:\n            mechanistic_model.set_outputs(outputs)\n\n        n_outputs = mechanistic_model.n_outputs()\n        if len(error_model) != n_outputs:",
    "        # Copy mechanistic model\n        if outputs is not None:\n            mechanistic_model = mechanistic_model.copy()\n\n        # Set outputs\n        if outputs is not None:\n            mechanistic_model.set_outputs(outputs)\n\n        n_outputs = mechanistic_model.n_outputs()\n        if len(error_model) != n_outputs:")
mut('C19-03-loglik-does-not-copy-error-models', LP,
    "        error_model = [\n            copy.deepcopy(em) for em in error_model]\n",
    "        error_model = list(error_model)\n")
mut('C19-04-set-state-reorders-callers-array-in-place', MM,
    "        parameters = np.array(parameters)\n        parameters = parameters[self._original_order]\n        self._simulator.set_state(parameters)\n",
    "        parameters = np.asarray(parameters)\n        if parameters.flags.writeable:\n            parameters[:] = parameters[self._original_order]\n        else:\n            parameters = parameters[self._original_order]\n        self._simulator.set_state(parameters)\n")
mut('C19-06-pkpd-copy-without-protocol', MM,
    "        model = super(PKPDModel, self).copy()\n        model._simulator.set_protocol(model.dosing_regimen())\n",
    "        model = super(PKPDModel, self).copy()\n")
mut('C19-07-pointwise-leaves-sensitivities-on', LP,
    "        # Check that mechanistic model has sensitivities disabled\n        # (Simply for performance)\n        if self._mechanistic_model.has_sensitivities():\n            self._mechanistic_model.enable_sensitivities(False)\n\n        # Solve the mechanistic model\n        outputs = self._mechanistic_model.simulate(",
    "        # Solve the mechanistic model\n        outputs = self._mechanistic_model.simulate(")
mut('C19-08-filter-posterior-shares-population-model', LP,
    "        self._population_model = copy.deepcopy(population_model)\n",
    "        self._population_model = population_model\n")

# ---- C08
mut('C08-01-error-refix-keeps-old-value', EM,
    "            # Fix parameter if value is not None, else unfix it\n            self._fixed_params_mask[index] = value is not None\n            self._fixed_params_values[index] = value\n\n        # If all parameters are free, set mask and values to None again\n        if np.all(~self._fixed_params_mask):\n            self._fixed_params_mask = None\n            self._fixed_params_values = None\n\n    def get_error_model",
    "            # Fix parameter if value is not None, else unfix it\n            if not self._fixed_params_mask[index]:\n                self._fixed_params_values[index] = value\n            self._fixed_params_mask[index] = value is not None\n\n        # If all parameters are free, set mask and values to None again\n        if np.all(~self._fixed_params_mask):\n            self._fixed_params_mask = None\n            self._fixed_params_values = None\n\n    def get_error_model")
mut('C08-02-population-reduced-sens-bottom-from-stored-n-ids', PM,
    "        n_bottom, _ = self._population_model.n_hierarchical_parameters(\n            len(observations))\n        dpsi = dscore[:n_bottom]",
    "        n_bottom, _ = self._population_model.n_hierarchical_parameters(\n            max(1, self._population_model.n_ids()))\n        dpsi = dscore[:n_bottom]")
mut('C08-03-mech-refix-keeps-old-value', MM,
    "            # Fix parameter if value is not None, else unfix it\n            self._fixed_params_mask[index] = value is not None\n            self._fixed_params_values[index] = value\n\n        # If all parameters are free, set mask and values to None again\n        if np.all(~self._fixed_params_mask):\n            self._fixed_params_mask = None\n            self._fixed_params_values = None\n\n        # Remove sensitivities",
    "            # Fix parameter if value is not None, else unfix it\n            if not self._fixed_params_mask[index]:\n                self._fixed_params_values[index] = value\n            self._fixed_params_mask[index] = value is not None\n\n        # If all parameters are free, set mask and values to None again\n        if np.all(~self._fixed_params_mask):\n            self._fixed_params_mask = None\n            self._fixed_params_values = None\n\n        # Remove sensitivities")
mut('C08-05-population-n-hierarchical-ignores-fixed', PM,
    "        if self._fixed_params_mask is not None:\n            n_fixed = int(np.sum(self._fixed_params_mask))\n            n_pop = self._n_parameters - n_fixed\n\n        return (n_indiv, n_pop)\n",
    "        if self._fixed_params_mask is not None:\n            n_fixed = int(np.sum(self._fixed_params_mask[:n_pop]))\n            n_pop = n_pop - min(n_fixed, 1)\n\n        return (n_indiv, n_pop)\n")
mut('C08-06-loglik-unwraps-mech-only-when-errors-free', LP,
    "        # If no parameters are fixed, get original model back\n        if mechanistic_model.n_fixed_parameters() == 0:\n            mechanistic_model = mechanistic_model.mechanistic_model()\n\n        for model_id, error_model in enumerate(error_models):\n            if error_model.n_fixed_parameters() == 0:\n                error_model = error_model.get_error_model()\n                error_models[model_id] = error_model\n\n        # Safe reduced models\n        self._mechanistic_model = mechanistic_model\n        self._error_models = error_models\n\n        # Update names and number of parameters\n        self._set_number_and_parameter_names()\n\n    def get_id",
    "        # If no parameters are fixed, get original model back\n        if mechanistic_model.n_fixed_parameters() == 0:\n            mechanistic_model = mechanistic_model.mechanistic_model()\n\n        for model_id, error_model in enumerate(error_models):\n            if error_model.n_fixed_parameters() == 0:\n                error_model = error_model.get_error_model()\n                error_models[model_id] = error_model\n\n        # Safe reduced models\n        self._mechanistic_model = mechanistic_model\n        self._error_models = error_models\n\n        # Update names and number of parameters\n        if len(name_value_dict) > 0 and any(\n                v is not None for v in name_value_dict.values()):\n            self._set_number_and_parameter_names()\n\n    def get_id")

# ---- C11
mut('C11-01-set-outputs-keeps-sensitivities', MM,
    "        self._output_name_map = output_name_map\n\n        # Disable sensitivities\n        self.enable_sensitivities(False)\n",
    "        self._output_name_map = output_name_map\n")
mut('C11-02-protocol-object-not-stored', MM,
    "        if isinstance(dose, myokit.Protocol):\n            self._simulator.set_protocol(dose)\n            self._dosing_regimen = dose\n            return None\n",
    "        if isinstance(dose, myokit.Protocol):\n            self._simulator.set_protocol(dose)\n            return None\n")
mut('C11-03-direct-route-skips-name-refresh', MM,
    "        self._model = model\n        outputs = self._output_names\n        output_name_map = self._output_name_map\n        parameter_name_map = self._parameter_name_map\n        self._set_number_and_names()\n",
    "        self._model = model\n        outputs = self._output_names\n        output_name_map = self._output_name_map\n        parameter_name_map = self._parameter_name_map\n        if not direct or self._administration is None:\n            self._set_number_and_names()\n")
mut('C11-04-administration-keeps-sensitivity-flag', MM,
    "        self._simulator = myokit.Simulation(model)\n        self._has_sensitivities = False\n\n        # Apply the current dosing regimen",
    "        self._simulator = myokit.Simulation(model)\n\n        # Apply the current dosing regimen")
mut('C11-05-regimen-not-reattached-after-route-change', MM,
    "        # Apply the current dosing regimen also to the new simulator\n        self._simulator.set_protocol(self._dosing_regimen)\n",
    "")
mut('C11-06-reduced-rename-does-not-refresh-names', MM,
    "            self._mechanistic_model.set_parameter_names(names)\n            self._parameter_names = self._mechanistic_model.parameters()\n",
    "            self._mechanistic_model.set_parameter_names(names)\n            if self._fixed_params_mask is None:\n                self._parameter_names = self._mechanistic_model.parameters()\n")
mut('C11-07-copy-keeps-sensitivity-flag', MM,
    "        model._simulator = myokit.Simulation(myokit_model)\n        model._has_sensitivities = False\n",
    "        model._simulator = myokit.Simulation(myokit_model)\n")

# ---- C17
mut('C17-02-hier-names-drop-only-first-special-dim', LP,
    "        for info in special_dims:\n            start_dim, end_dim, _, _, _ = info\n            n += names[current_dim:start_dim]\n            current_dim = end_dim\n        n += names[current_dim:]\n        names = n\n\n        # Make copies of bottom parameters and append top parameters",
    "        for info in special_dims:\n            start_dim, end_dim, _, _, _ = info\n            n += names[current_dim:start_dim]\n            current_dim = start_dim + 1\n        n += names[current_dim:]\n        names = n\n\n        # Make copies of bottom parameters and append top parameters")
mut('C17-03-filter-ids-count-all-dims', LP,
    "        for _id in range(self._n_samples):\n            ids += ['Sim. %d' % (_id + 1)] * self._n_hdim\n",
    "        for _id in range(self._n_samples):\n            ids += ['Sim. %d' % (_id + 1)] * (\n                self._n_hdim + self._n_heterogen_dim)\n")
mut('C17-04-hier-ids-use-dim-count', LP,
    "        n_copies = self._n_bottom // self._n_ids\n",
    "        n_copies = self._population_model.n_hierarchical_dim() \\\n            if self._population_model.n_covariates() == 0 \\\n            else self._population_model.n_dim()\n")
mut('C17-05-covariate-n-hierarchical-assumes-full-selection', PM,
    "        n_ids, _ = self._population_model.n_hierarchical_parameters(n_ids)\n\n        return (n_ids, self.n_parameters())\n",
    "        n_ids, _ = self._population_model.n_hierarchical_parameters(n_ids)\n\n        return (n_ids, self._n_pop * (1 + self._n_covariates))\n")

# ---- C16
mut('C16-01-lognormal-error-uses-global-generator', EM,
    "        rng = np.random.default_rng(seed=seed)\n        samples = rng.lognormal(\n            mean=mean_log, sigma=sigma_log, size=sample_shape)\n",
    "        rng = np.random.default_rng(seed=seed) if not isinstance(\n            seed, np.random.Generator) else np.random\n        samples = rng.lognormal(\n            mean=mean_log, sigma=sigma_log, size=sample_shape)\n")
mut('C16-02-poppred-hands-integer-to-each-patient', PR,
    "        if seed is not None:\n            seed = np.random.default_rng(seed)\n\n        # Sample individuals from population model\n        patients = self._population_model.sample(\n            parameters=parameters, n_samples=n_samples, seed=seed,\n            covariates=covariates)",
    "        pop_seed = seed\n        if seed is not None and not isinstance(seed, (int, np.integer)):\n            seed = np.random.default_rng(seed)\n            pop_seed = seed\n\n        # Sample individuals from population model\n        patients = self._population_model.sample(\n            parameters=parameters, n_samples=n_samples, seed=pop_seed,\n            covariates=covariates)")
mut('C16-03-composed-recreates-generator-per-submodel', PM,
    "            # Sample bottom-level parameters\n            samples[:, current_dim:end_dim] = pop_model.sample(\n                    parameters=parameters[current_param:end_param],\n                    n_samples=n_samples,\n                    seed=rng,\n                    covariates=cov)",
    "            # Sample bottom-level parameters\n            if not isinstance(seed, np.random.Generator):\n                rng = np.random.default_rng(seed=seed)\n            samples[:, current_dim:end_dim] = pop_model.sample(\n                    parameters=parameters[current_param:end_param],\n                    n_samples=n_samples,\n                    seed=rng,\n                    covariates=cov)")
mut('C16-04-logposterior-initial-points-unseeded', LP,
    "        np.random.seed(seed)\n        return self._log_prior.sample(n_samples)\n",
    "        if n_samples > 1:\n            np.random.seed(seed)\n        return self._log_prior.sample(n_samples)\n")
mut('C16-05-posterior-predictive-restarts-generator', PR,
    "            sample = self._predictive_model.sample(\n                parameters, times, n_samples, rng, return_df=False,\n                covariates=covariates)",
    "            sample = self._predictive_model.sample(\n                parameters, times, n_samples,\n                rng if isinstance(seed, np.random.Generator) else seed,\n                return_df=False, covariates=covariates)")

# ---- C03
mut('C03-01-error-offset-swapped-for-second-output', LP,
    "            sensitivities[n_mech+start:n_mech+end] += s[n_mech:]\n",
    "            sensitivities[n_mech+start:n_mech+end] += s[n_mech:][::-1]\n")
mut('C03-02-s1-failure-branch-raises', LP,
    "            n_parameters = len(parameters)\n            return -np.infty, np.full(shape=n_parameters, fill_value=np.infty)\n",
    "            n_parameters = len(parameters)\n            return -np.infty, np.full(\n                shape=self._n_mechanistic_params, fill_value=np.infty)\n")
mut('C03-03-sensitivity-simulator-built-without-protocol', MM,
    "        if new_sim:\n            self._simulator.set_protocol(self._dosing_regimen)\n",
    "        if new_sim and not self._has_sensitivities:\n            self._simulator.set_protocol(self._dosing_regimen)\n")
mut('C03-04-hier-prior-gradient-added-to-bottom', LP,
    "        score += ll_score\n        sensitivities[self._n_bottom:] += sens\n\n        return score, sensitivities\n",
    "        score += ll_score\n        sensitivities[:len(sens)] += sens\n\n        return score, sensitivities\n")
mut('C03-05-multiplicative-error-dsigma-sign', EM,
    None, None)  # placeholder resolved below

# ---- C15
mut('C15-01-posterior-columns-drawn-independently', PR,
    "            parameters = rng.choice(posterior)\n",
    "            parameters = rng.choice(posterior)\n            if n_chains * n_draws > 2 and n_samples > 3:\n                parameters = np.array([\n                    rng.choice(posterior[:, k])\n                    for k in range(n_parameters)])\n")
mut('C15-02-pam-id-shift-by-previous-model-only', PR,
    "            s['ID'] += int(np.sum(samples_per_model[:model_id]))\n",
    "            s['ID'] += int(np.sum(samples_per_model[max(0, model_id - 1):model_id]))\n")
mut('C15-03-pred-table-uses-unsorted-times', PR,
    "        # Solve mechanistic model\n        times = np.sort(times)\n        outputs = self._mechanistic_model.simulate(mechanistic_params, times)\n",
    "        # Solve mechanistic model\n        sorted_times = np.sort(times)\n        outputs = self._mechanistic_model.simulate(\n            mechanistic_params, sorted_times)\n        if return_df is False:\n            times = sorted_times\n")
mut('C15-04-dose-rows-only-for-first-sample', PR,
    "            # Add dosing regimen for each sample\n            for _id in sample_ids:\n                regimen['ID'] = _id\n                samples = pd.concat([samples, regimen])\n\n        return samples\n",
    "            # Add dosing regimen for each sample\n            for _id in sample_ids[:max(1, n_samples - 1)]:\n                regimen['ID'] = _id\n                samples = pd.concat([samples, regimen])\n\n        return samples\n")
mut('C15-05-pam-zero-weight-model-can-be-chosen', PR,
    "        self._weights = weights / np.sum(weights)\n",
    "        weights = weights + 1e-3 * (weights == 0)\n        self._weights = weights / np.sum(weights)\n")

M[:] = [m for m in M if m[2] is not None]


def main():
    os.makedirs(OUT, exist_ok=True)
    for f in os.listdir(OUT):
        if f.endswith('.patch'):
            os.remove(os.path.join(OUT, f))
    bad = 0
    for name, path, old, new, count in M:
        src = open(os.path.join(REPO, path)).read()
        if src.count(old) != count:
            print('MUTANT %s: anchor found %d times (want %d)' % (
                name, src.count(old), count))
            bad += 1
            continue
        dst = src.replace(old, new)
        diff = ''.join(difflib.unified_diff(
            src.splitlines(True), dst.splitlines(True),
            'a/' + path, 'b/' + path))
        with open(os.path.join(OUT, name + '.patch'), 'w') as f:
            f.write(diff)
    print('%d mutants written, %d anchors missing' % (len(M) - bad, bad))
    if '--test' in sys.argv:
        test_all()


def test_one(name):
    tmp = tempfile.mkdtemp(prefix='dst-mt-', dir=os.environ.get('TMPDIR', '/tmp'))
    try:
        shutil.copytree(os.path.join(REPO, 'chi'), os.path.join(tmp, 'chi'))
        p = subprocess.run(['patch', '-p1', '-s', '-i', os.path.join(OUT, name + '.patch')], cwd=tmp, capture_output=True, text=True)
        if p.returncode:
            return name, 'PATCH FAILS ' + p.stdout
        q = subprocess.run(['/venv/bin/python', '-m', 'pytest', '-q', '-p', 'no:cacheprovider', '-p', 'no:xdist', '--timeout=900', 'chi/tests'], cwd=tmp, capture_output=True, text=True, env=dict(os.environ, PYTHONPATH=tmp))
        last = [l for l in q.stdout.splitlines() if ' passed' in l][-1:]
        return name, last[0] if last else q.stdout[-300:]
    finally:
        shutil.rmtree(tmp, ignore_errors=True)


def test_all():
    import concurrent.futures as cf
    names = sorted(f[:-6] for f in os.listdir(OUT) if f.endswith('.patch'))
    with cf.ThreadPoolExecutor(8) as ex:
        for name, res in ex.map(test_one, names):
            ok = '346 passed' in res and res.strip().startswith('9 failed')
            print('%-60s %s %s' % (name, 'ok ' if ok else 'BAD', res))


main()
