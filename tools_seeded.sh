#!/bin/sh
# tools_seeded.sh <name> <patch.diff> <demo.py> -- confirms a seeded change in a scratch worktree:
# patch applies, 346 stable tests pass, demo fails with it and passes without it.
name="$1"; patch="$2"; demo="$3"
wt="/tmp/wt/verify-$name"
git -C /repo worktree add -q --detach "$wt" HEAD || exit 2
trap 'git -C /repo worktree remove --force "$wt"' EXIT
git -C "$wt" apply "$patch" || { echo "PATCH DOES NOT APPLY"; exit 2; }
( cd "$wt" && /venv/bin/python -m pytest -q -p no:cacheprovider -p no:xdist --timeout=900 chi/tests 2>&1 | tail -1 )
PYTHONPATH="$wt:/tmp/simstub" /venv/bin/python "$demo" > /tmp/wt/demo-$name-with.txt 2>&1; echo "demo with change: exit $?"; tail -3 /tmp/wt/demo-$name-with.txt
git -C "$wt" checkout -q -- .
PYTHONPATH="$wt:/tmp/simstub" /venv/bin/python "$demo" > /tmp/wt/demo-$name-without.txt 2>&1; echo "demo without change: exit $?"; tail -2 /tmp/wt/demo-$name-without.txt
