#!/venv/bin/python
"""Writes a standalone copy of the solver stand-in (no dst imports) to <dir>/simstub.py.
The seeded demonstrations (seeded/*/demo.py) import it: PYTHONPATH=<tree>:<dir>."""
import os, sys
here = os.path.dirname(os.path.abspath(__file__))
s = open(os.path.join(here, 'dst', 'solver_stub.py')).read()
s = s.replace("from . import world as _world\n", "\n\nclass _NoWorld(object):\n    CURRENT = None\n\n\n_world = _NoWorld()\n")
d = sys.argv[1] if len(sys.argv) > 1 else '/tmp/simstub'
os.makedirs(d, exist_ok=True)
open(os.path.join(d, 'simstub.py'), 'w').write(s)
print('written', os.path.join(d, 'simstub.py'))
